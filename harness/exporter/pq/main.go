// Conformance driver for C01 (persistent sending queue across crashes).
//
//	pq run <scripts.ndjson> <traces.ndjson>
//
// Every script drives the REAL persistent queue through the public exporter-helper API
// (exporterhelper.NewLogs + WithQueue{StorageID}) over an in-memory storage extension that can kill
// the process incarnation at the entry of its K-th storage call: from then on nothing of that
// incarnation reaches the map (calls fail, pushes are refused and not recorded), exactly like a dead
// process, and a new incarnation is started over the same contents.
//
// script: {"id":..,"cap":N,"block":bool,"retry":bool,"consumers":N,"dies":[K1,K2,..],"steps":[{"op":..,"req":..,"outcome":..}]}
// steps : start | offer r | await r | release r ok|perm|fail|transient | shutdown | await_shutdown | crash | drain
// trace : reset, start, store, offer_end, push, push_end, crash, shutdown_start, shutdown_end, drain_end, note
package main

import (
	"bufio"
	"context"
	"encoding/json"
	"errors"
	"fmt"
	"os"
	"sort"
	"sync"
	"time"

	"go.opentelemetry.io/collector/component"
	"go.opentelemetry.io/collector/config/configretry"
	"go.opentelemetry.io/collector/consumer/consumererror"
	"go.opentelemetry.io/collector/exporter"
	"go.opentelemetry.io/collector/exporter/exporterhelper"
	"go.opentelemetry.io/collector/exporter/exporterhelper/verifh/xh"
	"go.opentelemetry.io/collector/exporter/exportertest"
	"go.opentelemetry.io/collector/pdata/plog"
)

type Step struct {
	Op      string `json:"op"`
	Req     string `json:"req,omitempty"`
	Outcome string `json:"outcome,omitempty"`
}

type Script struct {
	ID        string `json:"id"`
	Cap       int64  `json:"cap"`
	Block     bool   `json:"block"`
	Retry     bool   `json:"retry"`
	Consumers int    `json:"consumers"`
	Dies      []int  `json:"dies"`
	Hold      int    `json:"hold"` // > 0: storage call number Hold of the FIRST incarnation is held until all else is quiet, then the process dies
	Steps     []Step `json:"steps"`
}

type Event struct {
	Ev      string       `json:"ev"`
	Script  string       `json:"script,omitempty"`
	Cfg     *Script      `json:"cfg,omitempty"`
	Inc     int          `json:"inc,omitempty"`
	N       int          `json:"n,omitempty"`
	Ops     []xh.OpRec   `json:"ops,omitempty"`
	After   *xh.Snapshot `json:"after,omitempty"`
	Req     string       `json:"req,omitempty"`
	OK      *bool        `json:"ok,omitempty"`
	Outcome string       `json:"outcome,omitempty"`
	At      int          `json:"at,omitempty"`
	Pushed  []string     `json:"pushed,omitempty"`
	Calls   []int        `json:"calls,omitempty"`
	Text    string       `json:"text,omitempty"`
}

type recorder struct {
	mu  sync.Mutex
	evs []Event
}

func (r *recorder) add(e Event) {
	r.mu.Lock()
	r.evs = append(r.evs, e)
	r.mu.Unlock()
}

type gate struct {
	arrived chan struct{}
	release chan string
}

type runner struct {
	sc      Script
	rec     *recorder
	store   *xh.Store
	mu      sync.Mutex
	gates   map[string]*gate // key inc/req
	auto    bool             // drain mode: every push is released with ok at once
	inflight int
	pushedInDrain map[string]bool
	exp     exporter.Logs
	inc     int
	shutCh  chan struct{}
	callsPerInc []int
	holdUsed bool
}

func (r *runner) gateFor(inc int, req string) *gate {
	k := fmt.Sprintf("%d/%s", inc, req)
	r.mu.Lock()
	defer r.mu.Unlock()
	g, ok := r.gates[k]
	if !ok {
		g = &gate{arrived: make(chan struct{}, 64), release: make(chan string, 64)}
		r.gates[k] = g
	}
	return g
}

var errDeadPush = errors.New("verif: dead incarnation cannot export")

func (r *runner) pusher(inc int) func(context.Context, plog.Logs) error {
	return func(_ context.Context, ld plog.Logs) error {
		tag := xh.TagOf(ld)
		if r.store.Dead() || r.store.Inc() != inc {
			return errDeadPush
		}
		r.mu.Lock()
		auto := r.auto
		r.inflight++
		if auto {
			r.pushedInDrain[tag] = true
		}
		r.mu.Unlock()
		r.rec.add(Event{Ev: "push", Req: tag, Inc: inc})
		outcome := "ok"
		if !auto {
			g := r.gateFor(inc, tag)
			g.arrived <- struct{}{}
		wait:
			for {
				select {
				case outcome = <-g.release:
					break wait
				case <-time.After(time.Millisecond):
					// the script may have moved on to its drain phase (or the incarnation died) meanwhile
					r.mu.Lock()
					a := r.auto
					if a {
						r.pushedInDrain[tag] = true
					}
					r.mu.Unlock()
					if a {
						outcome = "ok"
						break wait
					}
					if r.store.Dead() || r.store.Inc() != inc {
						outcome = "dead"
						break wait
					}
				}
			}
		}
		r.mu.Lock()
		r.inflight--
		r.mu.Unlock()
		if outcome == "dead" || r.store.Dead() || r.store.Inc() != inc {
			return errDeadPush
		}
		r.rec.add(Event{Ev: "push_end", Req: tag, Inc: inc, Outcome: outcome})
		switch outcome {
		case "ok":
			return nil
		case "perm":
			return consumererror.NewPermanent(errors.New("scripted permanent failure"))
		default: // fail (retry disabled: final) | transient (retry enabled: waits in back-off)
			return errors.New("scripted failure")
		}
	}
}

func (r *runner) startInc() bool {
	die := 0
	if len(r.callsPerInc) < len(r.sc.Dies) {
		die = r.sc.Dies[len(r.callsPerInc)]
	}
	r.waitHold()
	r.inc = r.store.NewIncarnation(die)
	if r.sc.Hold > 0 && len(r.callsPerInc) == 0 && !r.holdUsed {
		r.holdUsed = true
		r.store.SetHold(r.sc.Hold)
	}
	r.rec.add(Event{Ev: "start", Inc: r.inc})
	sid := component.MustNewID("vstore")
	qcfg := exporterhelper.NewDefaultQueueConfig()
	qcfg.QueueSize = r.sc.Cap
	qcfg.BlockOnOverflow = r.sc.Block
	qcfg.NumConsumers = max(1, r.sc.Consumers)
	qcfg.StorageID = &sid
	opts := []exporterhelper.Option{exporterhelper.WithQueue(qcfg), exporterhelper.WithTimeout(exporterhelper.TimeoutConfig{Timeout: 0})}
	if r.sc.Retry {
		rc := configretry.NewDefaultBackOffConfig()
		rc.InitialInterval = time.Hour
		rc.MaxInterval = time.Hour
		rc.MaxElapsedTime = 0
		opts = append(opts, exporterhelper.WithRetry(rc))
	}
	set := exportertest.NewNopSettings(component.MustNewType("verif"))
	exp, err := exporterhelper.NewLogs(context.Background(), set, struct{}{}, r.pusher(r.inc), opts...)
	if err != nil {
		r.rec.add(Event{Ev: "note", Text: "NewLogs: " + err.Error()})
		return false
	}
	r.exp = exp
	host := &xh.Host{ID: sid, Ext: &xh.Ext{S: r.store}}
	done := make(chan error, 1)
	go func() { done <- startC(func(sc context.Context) error { return exp.Start(sc, host) }) }()
	deadline := time.Now().Add(5 * time.Second)
	for {
		select {
		case err := <-done:
			if err != nil {
				r.rec.add(Event{Ev: "note", Text: "Start: " + err.Error()})
			}
			return true
		case <-time.After(time.Millisecond):
		}
		if r.store.Dead() {
			return false // died during recovery: Start never returns in a dead process
		}
		if time.Now().After(deadline) {
			// recovery that never finishes (e.g. blocked on a full queue before any consumer exists)
			r.rec.add(Event{Ev: "start_timeout", Inc: r.inc})
			r.store.Kill()
			return false
		}
	}
}

// waitHold: a held storage call (Script.Hold) resolves by itself once everything else is quiet; a new incarnation
// must not begin before that.
func (r *runner) waitHold() {
	for t := 0; t < 400 && r.store.Holding(); t++ {
		time.Sleep(5 * time.Millisecond)
	}
}

// abandon stops the goroutines of a dead (or finished) incarnation; nothing it does is recorded.
func (r *runner) abandon() {
	r.waitHold()
	r.store.Kill()
	r.mu.Lock()
	for _, g := range r.gates {
		select {
		case g.release <- "dead":
		default:
		}
	}
	r.mu.Unlock()
	if r.exp != nil {
		// the goroutines of a dead incarnation are parked inside their storage calls (possibly holding the queue
		// mutex): nothing to wait for.  Shutdown is still requested so that whatever can exit does.
		exp := r.exp
		if r.shutCh == nil {
			go func() { _ = exp.Shutdown(context.Background()) }()
		}
		r.exp = nil
		r.shutCh = nil
	}
	r.callsPerInc = append(r.callsPerInc, r.store.Calls())
	r.mu.Lock()
	r.gates = map[string]*gate{}
	r.mu.Unlock()
}

func (r *runner) quiescent() bool {
	sn := r.store.Snapshot()
	r.mu.Lock()
	inf := r.inflight
	r.mu.Unlock()
	if inf != 0 || sn.RI != sn.WI {
		return false
	}
	for _, i := range sn.DI { // a listed index whose body is gone is stale bookkeeping, not work
		if _, ok := sn.Items[fmt.Sprint(i)]; ok {
			return false
		}
	}
	return true
}

func (r *runner) drain() bool {
	r.mu.Lock()
	r.auto = true
	r.pushedInDrain = map[string]bool{}
	// release anything parked at a gate
	for _, g := range r.gates {
		select {
		case g.release <- "ok":
		default:
		}
	}
	r.mu.Unlock()
	deadline := time.Now().Add(20 * time.Second)
	lastCalls, lastChange := -1, time.Now()
	lastPushed, callsAtPush, livelock := -1, 0, false
	for time.Now().Before(deadline) && !r.store.Dead() {
		if r.quiescent() {
			time.Sleep(20 * time.Millisecond)
			if r.quiescent() {
				break
			}
		}
		if c := r.store.Calls(); c != lastCalls {
			lastCalls, lastChange = c, time.Now()
		} else if time.Since(lastChange) > 2*time.Second {
			break // idle fallback when the storage layout is not the expected one
		}
		r.mu.Lock()
		np := len(r.pushedInDrain)
		r.mu.Unlock()
		if np != lastPushed {
			lastPushed, callsAtPush = np, r.store.Calls()
		} else if r.store.Calls()-callsAtPush > 3000 {
			// thousands of storage calls without a single hand-off: the queue spins (e.g. read index past
			// the write index).  Whatever is still owed will never be handed over by this incarnation.
			r.rec.add(Event{Ev: "note", Text: "drain livelock: storage calls without hand-off"})
			livelock = true
			break
		}
		time.Sleep(2 * time.Millisecond)
	}
	r.mu.Lock()
	var pushed []string
	for k := range r.pushedInDrain {
		pushed = append(pushed, k)
	}
	r.auto = false
	r.mu.Unlock()
	sort.Strings(pushed)
	if pushed == nil {
		pushed = []string{}
	}
	if r.store.Dead() {
		return false
	}
	r.mu.Lock()
	inf := r.inflight
	r.mu.Unlock()
	if inf > 0 { // not a completed drain: no verdict may be based on it
		r.rec.add(Event{Ev: "note", Text: "drain incomplete: export call still in flight"})
		return false
	}
	sn := r.store.Snapshot()
	r.rec.add(Event{Ev: "drain_end", Inc: r.inc, Pushed: pushed, After: &sn})
	if livelock {
		r.store.Kill2Quiet() // parks the spinning goroutine inside its next storage call
	}
	return true
}

func runScript(sc Script) []Event {
	r := &runner{sc: sc, rec: &recorder{}, store: xh.NewStore(), gates: map[string]*gate{}, pushedInDrain: map[string]bool{}}
	r.store.BlockDead = true
	nstore := 0
	r.store.OnCall = func(c xh.CallRec) {
		if nstore++; nstore > 1500 {
			return // a spinning queue would otherwise record without bound; such a trace is not sampled for strict validation
		}
		a := c.After
		r.rec.add(Event{Ev: "store", Inc: c.Inc, N: c.N, Ops: c.Ops, After: &a})
	}
	r.store.OnDie = func(inc, at int) { r.rec.add(Event{Ev: "crash", Inc: inc, At: at}) }
	cfg := sc
	r.rec.add(Event{Ev: "reset", Script: sc.ID, Cfg: &cfg})
	alive, drained := false, false
	for i := 0; i < len(sc.Steps); i++ {
		st := sc.Steps[i]
		if st.Op == "start" {
			drained = false
			if alive || r.exp != nil {
				r.abandon()
			}
			alive = r.startInc()
			if r.store.Dead() {
				alive = false
			}
			continue
		}
		if !alive || r.store.Dead() {
			alive = false
			continue // a dead process performs no further steps; wait for the next start
		}
		switch st.Op {
		case "offer":
			res := make(chan error, 1)
			exp := r.exp
			go func() { res <- exp.ConsumeLogs(context.Background(), xh.MakeLogs(st.Req, 1)) }()
			deadline := time.Now().Add(5 * time.Second)
		waitOffer:
			for {
				select {
				case err := <-res:
					if !r.store.Dead() {
						ok := err == nil
						r.rec.add(Event{Ev: "offer_end", Req: st.Req, OK: &ok, Inc: r.inc})
					}
					break waitOffer
				case <-time.After(time.Millisecond):
				}
				if r.store.Dead() {
					break
				}
				if time.Now().After(deadline) {
					r.rec.add(Event{Ev: "note", Text: "offer blocked: " + st.Req})
					break
				}
			}
		case "await":
			g := r.gateFor(r.inc, st.Req)
			deadline := time.Now().Add(time.Second)
		waitPush:
			for {
				select {
				case <-g.arrived:
					break waitPush
				case <-time.After(time.Millisecond):
				}
				if r.store.Dead() {
					break
				}
				if time.Now().After(deadline) {
					r.rec.add(Event{Ev: "await_timeout", Req: st.Req, Inc: r.inc})
					break
				}
			}
		case "release":
			g := r.gateFor(r.inc, st.Req)
			g.release <- st.Outcome
			// let the completion (onDone) run: wait briefly for the storage call count to move
			c0 := r.store.Calls()
			for t := 0; t < 60 && r.store.Calls() == c0 && !r.store.Dead(); t++ {
				time.Sleep(time.Millisecond)
				if st.Outcome == "transient" && sc.Retry && t > 20 {
					break // parked in back-off: no completion expected
				}
			}
		case "shutdown":
			r.rec.add(Event{Ev: "shutdown_start", Inc: r.inc})
			r.shutCh = make(chan struct{})
			exp, ch, inc := r.exp, r.shutCh, r.inc
			go func() {
				_ = exp.Shutdown(context.Background())
				if !r.store.Dead() && r.store.Inc() == inc {
					r.rec.add(Event{Ev: "shutdown_end", Inc: inc})
				}
				close(ch)
			}()
		case "await_shutdown":
			if r.shutCh != nil {
				// Shutdown waits for the consumers: a hand-off that started before the queue was marked
				// stopped and that the script does not release is answered with success
				deadline := time.Now().Add(10 * time.Second)
			waitShut:
				for {
					select {
					case <-r.shutCh:
						break waitShut
					case <-time.After(2 * time.Millisecond):
					}
					if time.Now().After(deadline) {
						r.rec.add(Event{Ev: "note", Text: "shutdown did not return"})
						break
					}
					r.mu.Lock()
					for _, g := range r.gates {
						select {
						case <-g.arrived:
							g.release <- "ok"
						default:
						}
					}
					r.mu.Unlock()
				}
				r.shutCh = nil
				r.exp = nil
				r.callsPerInc = append(r.callsPerInc, r.store.Calls())
				alive = false
				// a cleanly stopped process is simply gone; the next start is a new incarnation
				r.store.Kill2Quiet()
			}
		case "crash":
			r.store.Kill()
			alive = false
		case "drain":
			drained = r.drain()
		}
	}
	// a death in the last incarnation (chosen by "dies") leaves the script without its final drain:
	// restart until one incarnation drains alive
	for k := 0; !drained && k < len(sc.Dies)+2; k++ {
		if r.exp != nil {
			r.abandon()
		}
		if r.startInc() && !r.store.Dead() {
			drained = r.drain()
		}
	}
	if r.exp != nil {
		r.store.Kill2Quiet()
		r.abandon()
	}
	calls := append([]int(nil), r.callsPerInc...)
	r.rec.add(Event{Ev: "end", Calls: calls})
	return r.rec.evs
}

func main() {
	if len(os.Args) != 4 || os.Args[1] != "run" {
		fmt.Fprintln(os.Stderr, "usage: pq run <scripts.ndjson> <traces.ndjson>")
		os.Exit(3)
	}
	in, err := os.Open(os.Args[2])
	if err != nil {
		fmt.Fprintln(os.Stderr, err)
		os.Exit(3)
	}
	var scripts []Script
	sc := bufio.NewScanner(in)
	sc.Buffer(make([]byte, 1<<20), 1<<26)
	for sc.Scan() {
		var s Script
		if err := json.Unmarshal(sc.Bytes(), &s); err != nil {
			fmt.Fprintln(os.Stderr, "bad script:", err)
			os.Exit(3)
		}
		scripts = append(scripts, s)
	}
	out, err := os.Create(os.Args[3])
	if err != nil {
		fmt.Fprintln(os.Stderr, err)
		os.Exit(3)
	}
	w := bufio.NewWriter(out)
	enc := json.NewEncoder(w)
	// results are written in script order as soon as they are complete (bounded memory)
	results := make([][]Event, len(scripts))
	doneCh := make([]chan struct{}, len(scripts))
	for i := range doneCh {
		doneCh[i] = make(chan struct{})
	}
	par := 16
	sem := make(chan struct{}, par)
	go func() {
		for i := range scripts {
			sem <- struct{}{}
			go func(i int) {
				defer func() { <-sem }()
				results[i] = runScript(scripts[i])
				close(doneCh[i])
			}(i)
		}
	}()
	for i := range scripts {
		<-doneCh[i]
		for _, e := range results[i] {
			_ = enc.Encode(e)
		}
		results[i] = nil
	}
	w.Flush()
	out.Close()
}

// startC calls a component's Start with a context that is cancelled as soon as Start has returned: component.Component
// says that context "will be cancelled soon", so nothing that has to outlive Start may depend on it.
func startC(start func(context.Context) error) error {
	ctx, cancel := context.WithCancel(context.Background())
	defer cancel()
	return start(ctx)
}
