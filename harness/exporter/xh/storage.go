// Package xh holds helpers shared by the exporter-helper conformance drivers.
package xh

import (
	"time"
	"context"
	"encoding/binary"
	"errors"
	"sort"
	"strconv"
	"sync"

	"go.opentelemetry.io/collector/component"
	"go.opentelemetry.io/collector/extension/xextension/storage"
	"go.opentelemetry.io/collector/pdata/plog"
)

// ErrDead is what a storage call of a killed incarnation returns: nothing of it reaches the map.
var ErrDead = errors.New("verif: process incarnation is dead")

// OpRec is one storage operation as recorded in a trace.
type OpRec struct {
	T string `json:"t"` // get | set | del
	K string `json:"k"`
}

// Snapshot is the decoded content of the storage map after a call.
type Snapshot struct {
	RI    int64            `json:"ri"` // -1 = not set
	WI    int64            `json:"wi"`
	DI    []int64          `json:"di"`
	Items map[string]string `json:"items"` // index -> request tag ("?" if undecodable)
}

// CallRec is handed to the recorder for every storage call of a live incarnation.
type CallRec struct {
	Inc   int
	N     int // 1-based call number within the incarnation
	Ops   []OpRec
	After Snapshot
}

// Store is an in-memory storage extension shared by successive incarnations.
// A client belongs to one incarnation; once the incarnation is dead all its calls fail without effect.
type Store struct {
	mu     sync.Mutex
	data   map[string][]byte
	inc    int   // current incarnation
	dead   bool  // current incarnation dead?
	calls  int   // storage calls of the current incarnation so far (attempted)
	dieAt  int   // die at ENTRY of this call number (0 = never)
	OnCall func(CallRec)
	// BlockDead: storage calls of a dead incarnation never return (instead of failing)
	BlockDead bool
	OnDie  func(inc, atCall int)
	// CloseErr: Close of every client reports this error (a storage extension that fails to close)
	CloseErr error
	// holdAt > 0: call number holdAt of the current incarnation is HELD at its entry until every other goroutine has
	// gone quiet (no further storage call for a while), then it is applied and the incarnation dies right after it.
	// With code that makes its storage calls under the queue mutex this is the same as a death at the entry of call
	// holdAt+1; with code that releases the mutex around a storage call it lets everything else overtake that call.
	holdAt  int
	held    bool
	holding bool
	// HoldSurvives: the held call is only DELAYED (a slow storage write); the incarnation lives on after it.
	HoldSurvives bool
}

func NewStore() *Store { return &Store{data: map[string][]byte{}} }

// NewIncarnation starts a new process incarnation over the same contents.
func (s *Store) NewIncarnation(dieAt int) int {
	s.mu.Lock()
	defer s.mu.Unlock()
	s.inc++
	s.dead = false
	s.calls = 0
	s.dieAt = dieAt
	s.holdAt, s.held = 0, false
	return s.inc
}

// SetHold arms the hold for the current incarnation (see holdAt).
func (s *Store) SetHold(k int) { s.mu.Lock(); s.holdAt, s.held = k, false; s.mu.Unlock() }

// Holding reports whether a call is being held right now.
func (s *Store) Holding() bool { s.mu.Lock(); defer s.mu.Unlock(); return s.holding }

func (s *Store) Kill() {
	s.mu.Lock()
	defer s.mu.Unlock()
	if !s.dead {
		s.dead = true
		if s.OnDie != nil {
			s.OnDie(s.inc, s.calls+1)
		}
	}
}

// Kill2Quiet marks a cleanly stopped incarnation as gone without reporting a crash.
func (s *Store) Kill2Quiet() { s.mu.Lock(); s.dead = true; s.mu.Unlock() }

func (s *Store) Dead() bool { s.mu.Lock(); defer s.mu.Unlock(); return s.dead }
func (s *Store) Calls() int { s.mu.Lock(); defer s.mu.Unlock(); return s.calls }
func (s *Store) Inc() int   { s.mu.Lock(); defer s.mu.Unlock(); return s.inc }

// Snapshot decodes the current map (layout knowledge is used for recording/acceleration only).
func (s *Store) Snapshot() Snapshot { s.mu.Lock(); defer s.mu.Unlock(); return s.snapshotLocked() }

func (s *Store) snapshotLocked() Snapshot {
	sn := Snapshot{RI: -1, WI: -1, DI: []int64{}, Items: map[string]string{}}
	for k, v := range s.data {
		switch k {
		case "ri":
			if len(v) >= 8 {
				sn.RI = int64(binary.LittleEndian.Uint64(v))
			}
		case "wi":
			if len(v) >= 8 {
				sn.WI = int64(binary.LittleEndian.Uint64(v))
			}
		case "di":
			if len(v) >= 4 {
				n := int(binary.LittleEndian.Uint32(v))
				b := v[4:]
				for i := 0; i < n && len(b) >= 8; i++ {
					sn.DI = append(sn.DI, int64(binary.LittleEndian.Uint64(b)))
					b = b[8:]
				}
			}
		case "si":
		default:
			if _, err := strconv.ParseUint(k, 10, 64); err == nil {
				sn.Items[k] = TagOfBytes(v)
			}
		}
	}
	return sn
}

// TagOfBytes decodes a stored logs request and returns the tag of its first record.
func TagOfBytes(b []byte) string {
	ld, err := (&plog.ProtoUnmarshaler{}).UnmarshalLogs(b)
	if err != nil {
		return "?"
	}
	return TagOf(ld)
}

// TagOf returns the request tag carried by a payload built with MakeLogs.
func TagOf(ld plog.Logs) string {
	if ld.ResourceLogs().Len() == 0 || ld.ResourceLogs().At(0).ScopeLogs().Len() == 0 ||
		ld.ResourceLogs().At(0).ScopeLogs().At(0).LogRecords().Len() == 0 {
		return "?"
	}
	return ld.ResourceLogs().At(0).ScopeLogs().At(0).LogRecords().At(0).Body().Str()
}

// MakeLogs builds a payload of n records, all tagged.
func MakeLogs(tag string, n int) plog.Logs {
	ld := plog.NewLogs()
	sl := ld.ResourceLogs().AppendEmpty().ScopeLogs().AppendEmpty()
	for i := 0; i < n; i++ {
		lr := sl.LogRecords().AppendEmpty()
		lr.Body().SetStr(tag)
		lr.Attributes().PutInt("k", int64(i))
	}
	return ld
}

// enter accounts one storage call; returns false if the incarnation is (now) dead.
func (s *Store) enter(inc int) bool {
	if inc != s.inc || s.dead {
		return false
	}
	s.calls++
	if s.dieAt > 0 && s.calls >= s.dieAt {
		s.dead = true
		if s.OnDie != nil {
			s.OnDie(s.inc, s.calls)
		}
		return false
	}
	return true
}

func (s *Store) apply(inc int, ops []*storage.Operation) error {
	s.mu.Lock()
	if !s.enter(inc) {
		block := s.BlockDead
		s.mu.Unlock()
		if block {
			select {} // a dead process does nothing any more: its goroutines simply stop here
		}
		return ErrDead
	}
	defer s.mu.Unlock()
	dieAfter := false
	if s.holdAt > 0 && s.calls == s.holdAt && !s.held {
		s.held, s.holding = true, true
		myN := s.calls
		start, quietSince, seen := time.Now(), time.Now(), s.calls
		for {
			s.mu.Unlock()
			time.Sleep(3 * time.Millisecond)
			s.mu.Lock()
			if inc != s.inc || s.dead {
				s.holding = false
				if s.BlockDead {
					s.mu.Unlock()
					select {}
				}
				return ErrDead
			}
			if s.calls != seen {
				seen, quietSince = s.calls, time.Now()
			}
			if s.HoldSurvives {
				// a slow write: it lands once two later storage calls have been made by others (they overtook it), or after
				// 250 ms when nobody can (the queue's mutex is held across the write)
				if (s.calls >= myN+2 && time.Since(quietSince) > 10*time.Millisecond) || time.Since(start) > 250*time.Millisecond {
					break
				}
				continue
			}
			if time.Since(quietSince) > 40*time.Millisecond || time.Since(start) > 600*time.Millisecond {
				break
			}
		}
		s.holding = false
		dieAfter = !s.HoldSurvives
		defer func() {
			if s.HoldSurvives {
				return
			}
			// the incarnation dies right after the held call has taken effect
			if !s.dead {
				s.dead = true
				if s.OnDie != nil {
					s.OnDie(s.inc, myN)
				}
			}
		}()
	}
	_ = dieAfter
	recs := make([]OpRec, 0, len(ops))
	for _, op := range ops {
		switch op.Type {
		case storage.Get:
			if v, ok := s.data[op.Key]; ok {
				op.Value = append([]byte(nil), v...)
			} else {
				op.Value = nil
			}
			recs = append(recs, OpRec{"get", op.Key})
		case storage.Set:
			s.data[op.Key] = append([]byte(nil), op.Value...)
			recs = append(recs, OpRec{"set", op.Key})
		case storage.Delete:
			delete(s.data, op.Key)
			recs = append(recs, OpRec{"del", op.Key})
		}
	}
	if s.OnCall != nil {
		s.OnCall(CallRec{Inc: inc, N: s.calls, Ops: recs, After: s.snapshotLocked()})
	}
	return nil
}

// Raw returns a copy of the stored value.
func (s *Store) Raw(k string) []byte { s.mu.Lock(); defer s.mu.Unlock(); return append([]byte(nil), s.data[k]...) }

// Keys returns the sorted keys (diagnostics).
func (s *Store) Keys() []string {
	s.mu.Lock()
	defer s.mu.Unlock()
	ks := make([]string, 0, len(s.data))
	for k := range s.data {
		ks = append(ks, k)
	}
	sort.Strings(ks)
	return ks
}

type client struct {
	s   *Store
	inc int
}

func (c *client) Get(_ context.Context, key string) ([]byte, error) {
	op := storage.GetOperation(key)
	if err := c.s.apply(c.inc, []*storage.Operation{op}); err != nil {
		return nil, err
	}
	return op.Value, nil
}

func (c *client) Set(_ context.Context, key string, value []byte) error {
	return c.s.apply(c.inc, []*storage.Operation{storage.SetOperation(key, value)})
}

func (c *client) Delete(_ context.Context, key string) error {
	return c.s.apply(c.inc, []*storage.Operation{storage.DeleteOperation(key)})
}

func (c *client) Batch(_ context.Context, ops ...*storage.Operation) error {
	return c.s.apply(c.inc, ops)
}

func (c *client) Close(context.Context) error { return c.s.CloseErr }

// Ext is the storage extension handed to the exporter through the host.
type Ext struct {
	component.StartFunc
	component.ShutdownFunc
	S *Store
}

func (e *Ext) GetClient(context.Context, component.Kind, component.ID, string) (storage.Client, error) {
	return &client{s: e.S, inc: e.S.Inc()}, nil
}

// Host serves the extension.
type Host struct {
	ID  component.ID
	Ext component.Component
}

func (h *Host) GetExtensions() map[component.ID]component.Component {
	return map[component.ID]component.Component{h.ID: h.Ext}
}
