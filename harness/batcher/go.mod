module go.opentelemetry.io/collector/exporter/exporterhelper/verifh

go 1.23.0

require (
	go.opentelemetry.io/collector/component v1.30.0
	go.opentelemetry.io/collector/component/componenttest v0.124.0
	go.opentelemetry.io/collector/exporter v0.124.0
	go.opentelemetry.io/collector/exporter/exporterhelper/xexporterhelper v0.0.0
	go.opentelemetry.io/collector/pdata v1.30.0
	go.opentelemetry.io/collector/pdata/pprofile v0.124.0
	go.opentelemetry.io/collector/pipeline v0.124.0
	go.opentelemetry.io/collector/pipeline/xpipeline v0.124.0
)

require (
	github.com/cenkalti/backoff/v5 v5.0.2 // indirect
	github.com/go-logr/logr v1.4.2 // indirect
	github.com/go-logr/stdr v1.2.2 // indirect
	github.com/go-viper/mapstructure/v2 v2.2.1 // indirect
	github.com/gogo/protobuf v1.3.2 // indirect
	github.com/google/uuid v1.6.0 // indirect
	github.com/hashicorp/go-version v1.7.0 // indirect
	github.com/json-iterator/go v1.1.12 // indirect
	github.com/knadh/koanf/maps v0.1.2 // indirect
	github.com/knadh/koanf/providers/confmap v1.0.0 // indirect
	github.com/knadh/koanf/v2 v2.2.0 // indirect
	github.com/mitchellh/copystructure v1.2.0 // indirect
	github.com/mitchellh/reflectwalk v1.0.2 // indirect
	github.com/modern-go/concurrent v0.0.0-20180306012644-bacd9c7ef1dd // indirect
	github.com/modern-go/reflect2 v1.0.2 // indirect
	go.opentelemetry.io/auto/sdk v1.1.0 // indirect
	go.opentelemetry.io/collector/config/configretry v1.30.0 // indirect
	go.opentelemetry.io/collector/confmap v1.30.0 // indirect
	go.opentelemetry.io/collector/consumer v1.30.0 // indirect
	go.opentelemetry.io/collector/consumer/consumererror v0.124.0 // indirect
	go.opentelemetry.io/collector/consumer/consumererror/xconsumererror v0.124.0 // indirect
	go.opentelemetry.io/collector/consumer/xconsumer v0.124.0 // indirect
	go.opentelemetry.io/collector/exporter/xexporter v0.124.0 // indirect
	go.opentelemetry.io/collector/extension v1.30.0 // indirect
	go.opentelemetry.io/collector/extension/xextension v0.124.0 // indirect
	go.opentelemetry.io/collector/featuregate v1.30.0 // indirect
	go.opentelemetry.io/collector/internal/telemetry v0.124.0 // indirect
	go.opentelemetry.io/contrib/bridges/otelzap v0.10.0 // indirect
	go.opentelemetry.io/otel v1.35.0 // indirect
	go.opentelemetry.io/otel/log v0.11.0 // indirect
	go.opentelemetry.io/otel/metric v1.35.0 // indirect
	go.opentelemetry.io/otel/sdk v1.35.0 // indirect
	go.opentelemetry.io/otel/sdk/metric v1.35.0 // indirect
	go.opentelemetry.io/otel/trace v1.35.0 // indirect
	go.uber.org/multierr v1.11.0 // indirect
	go.uber.org/zap v1.27.0 // indirect
	golang.org/x/net v0.39.0 // indirect
	golang.org/x/sys v0.32.0 // indirect
	golang.org/x/text v0.24.0 // indirect
	google.golang.org/genproto/googleapis/rpc v0.0.0-20250115164207-1a7da9e5054f // indirect
	google.golang.org/grpc v1.71.1 // indirect
	google.golang.org/protobuf v1.36.6 // indirect
	sigs.k8s.io/yaml v1.4.0 // indirect
)

replace (
	go.opentelemetry.io/collector => /tmp/wt-C04
	go.opentelemetry.io/collector/client => /tmp/wt-C04/client
	go.opentelemetry.io/collector/cmd/builder => /tmp/wt-C04/cmd/builder
	go.opentelemetry.io/collector/cmd/mdatagen => /tmp/wt-C04/cmd/mdatagen
	go.opentelemetry.io/collector/cmd/otelcorecol => /tmp/wt-C04/cmd/otelcorecol
	go.opentelemetry.io/collector/component => /tmp/wt-C04/component
	go.opentelemetry.io/collector/component/componentstatus => /tmp/wt-C04/component/componentstatus
	go.opentelemetry.io/collector/component/componenttest => /tmp/wt-C04/component/componenttest
	go.opentelemetry.io/collector/config/configauth => /tmp/wt-C04/config/configauth
	go.opentelemetry.io/collector/config/configcompression => /tmp/wt-C04/config/configcompression
	go.opentelemetry.io/collector/config/configgrpc => /tmp/wt-C04/config/configgrpc
	go.opentelemetry.io/collector/config/confighttp => /tmp/wt-C04/config/confighttp
	go.opentelemetry.io/collector/config/confighttp/xconfighttp => /tmp/wt-C04/config/confighttp/xconfighttp
	go.opentelemetry.io/collector/config/configmiddleware => /tmp/wt-C04/config/configmiddleware
	go.opentelemetry.io/collector/config/confignet => /tmp/wt-C04/config/confignet
	go.opentelemetry.io/collector/config/configopaque => /tmp/wt-C04/config/configopaque
	go.opentelemetry.io/collector/config/configretry => /tmp/wt-C04/config/configretry
	go.opentelemetry.io/collector/config/configtelemetry => /tmp/wt-C04/config/configtelemetry
	go.opentelemetry.io/collector/config/configtls => /tmp/wt-C04/config/configtls
	go.opentelemetry.io/collector/confmap => /tmp/wt-C04/confmap
	go.opentelemetry.io/collector/confmap/internal/e2e => /tmp/wt-C04/confmap/internal/e2e
	go.opentelemetry.io/collector/confmap/provider/envprovider => /tmp/wt-C04/confmap/provider/envprovider
	go.opentelemetry.io/collector/confmap/provider/fileprovider => /tmp/wt-C04/confmap/provider/fileprovider
	go.opentelemetry.io/collector/confmap/provider/httpprovider => /tmp/wt-C04/confmap/provider/httpprovider
	go.opentelemetry.io/collector/confmap/provider/httpsprovider => /tmp/wt-C04/confmap/provider/httpsprovider
	go.opentelemetry.io/collector/confmap/provider/yamlprovider => /tmp/wt-C04/confmap/provider/yamlprovider
	go.opentelemetry.io/collector/confmap/xconfmap => /tmp/wt-C04/confmap/xconfmap
	go.opentelemetry.io/collector/connector => /tmp/wt-C04/connector
	go.opentelemetry.io/collector/connector/connectortest => /tmp/wt-C04/connector/connectortest
	go.opentelemetry.io/collector/connector/forwardconnector => /tmp/wt-C04/connector/forwardconnector
	go.opentelemetry.io/collector/connector/xconnector => /tmp/wt-C04/connector/xconnector
	go.opentelemetry.io/collector/consumer => /tmp/wt-C04/consumer
	go.opentelemetry.io/collector/consumer/consumererror => /tmp/wt-C04/consumer/consumererror
	go.opentelemetry.io/collector/consumer/consumererror/xconsumererror => /tmp/wt-C04/consumer/consumererror/xconsumererror
	go.opentelemetry.io/collector/consumer/consumertest => /tmp/wt-C04/consumer/consumertest
	go.opentelemetry.io/collector/consumer/xconsumer => /tmp/wt-C04/consumer/xconsumer
	go.opentelemetry.io/collector/exporter => /tmp/wt-C04/exporter
	go.opentelemetry.io/collector/exporter/debugexporter => /tmp/wt-C04/exporter/debugexporter
	go.opentelemetry.io/collector/exporter/exporterhelper/xexporterhelper => /tmp/wt-C04/exporter/exporterhelper/xexporterhelper
	go.opentelemetry.io/collector/exporter/exportertest => /tmp/wt-C04/exporter/exportertest
	go.opentelemetry.io/collector/exporter/nopexporter => /tmp/wt-C04/exporter/nopexporter
	go.opentelemetry.io/collector/exporter/otlpexporter => /tmp/wt-C04/exporter/otlpexporter
	go.opentelemetry.io/collector/exporter/otlphttpexporter => /tmp/wt-C04/exporter/otlphttpexporter
	go.opentelemetry.io/collector/exporter/xexporter => /tmp/wt-C04/exporter/xexporter
	go.opentelemetry.io/collector/extension => /tmp/wt-C04/extension
	go.opentelemetry.io/collector/extension/extensionauth => /tmp/wt-C04/extension/extensionauth
	go.opentelemetry.io/collector/extension/extensionauth/extensionauthtest => /tmp/wt-C04/extension/extensionauth/extensionauthtest
	go.opentelemetry.io/collector/extension/extensioncapabilities => /tmp/wt-C04/extension/extensioncapabilities
	go.opentelemetry.io/collector/extension/extensionmiddleware => /tmp/wt-C04/extension/extensionmiddleware
	go.opentelemetry.io/collector/extension/extensionmiddleware/extensionmiddlewaretest => /tmp/wt-C04/extension/extensionmiddleware/extensionmiddlewaretest
	go.opentelemetry.io/collector/extension/extensiontest => /tmp/wt-C04/extension/extensiontest
	go.opentelemetry.io/collector/extension/memorylimiterextension => /tmp/wt-C04/extension/memorylimiterextension
	go.opentelemetry.io/collector/extension/xextension => /tmp/wt-C04/extension/xextension
	go.opentelemetry.io/collector/extension/zpagesextension => /tmp/wt-C04/extension/zpagesextension
	go.opentelemetry.io/collector/featuregate => /tmp/wt-C04/featuregate
	go.opentelemetry.io/collector/filter => /tmp/wt-C04/filter
	go.opentelemetry.io/collector/internal/e2e => /tmp/wt-C04/internal/e2e
	go.opentelemetry.io/collector/internal/fanoutconsumer => /tmp/wt-C04/internal/fanoutconsumer
	go.opentelemetry.io/collector/internal/memorylimiter => /tmp/wt-C04/internal/memorylimiter
	go.opentelemetry.io/collector/internal/sharedcomponent => /tmp/wt-C04/internal/sharedcomponent
	go.opentelemetry.io/collector/internal/telemetry => /tmp/wt-C04/internal/telemetry
	go.opentelemetry.io/collector/internal/tools => /tmp/wt-C04/internal/tools
	go.opentelemetry.io/collector/otelcol => /tmp/wt-C04/otelcol
	go.opentelemetry.io/collector/otelcol/otelcoltest => /tmp/wt-C04/otelcol/otelcoltest
	go.opentelemetry.io/collector/pdata => /tmp/wt-C04/pdata
	go.opentelemetry.io/collector/pdata/pprofile => /tmp/wt-C04/pdata/pprofile
	go.opentelemetry.io/collector/pdata/testdata => /tmp/wt-C04/pdata/testdata
	go.opentelemetry.io/collector/pipeline => /tmp/wt-C04/pipeline
	go.opentelemetry.io/collector/pipeline/xpipeline => /tmp/wt-C04/pipeline/xpipeline
	go.opentelemetry.io/collector/processor => /tmp/wt-C04/processor
	go.opentelemetry.io/collector/processor/batchprocessor => /tmp/wt-C04/processor/batchprocessor
	go.opentelemetry.io/collector/processor/memorylimiterprocessor => /tmp/wt-C04/processor/memorylimiterprocessor
	go.opentelemetry.io/collector/processor/processorhelper => /tmp/wt-C04/processor/processorhelper
	go.opentelemetry.io/collector/processor/processorhelper/xprocessorhelper => /tmp/wt-C04/processor/processorhelper/xprocessorhelper
	go.opentelemetry.io/collector/processor/processortest => /tmp/wt-C04/processor/processortest
	go.opentelemetry.io/collector/processor/xprocessor => /tmp/wt-C04/processor/xprocessor
	go.opentelemetry.io/collector/receiver => /tmp/wt-C04/receiver
	go.opentelemetry.io/collector/receiver/nopreceiver => /tmp/wt-C04/receiver/nopreceiver
	go.opentelemetry.io/collector/receiver/otlpreceiver => /tmp/wt-C04/receiver/otlpreceiver
	go.opentelemetry.io/collector/receiver/receiverhelper => /tmp/wt-C04/receiver/receiverhelper
	go.opentelemetry.io/collector/receiver/receivertest => /tmp/wt-C04/receiver/receivertest
	go.opentelemetry.io/collector/receiver/xreceiver => /tmp/wt-C04/receiver/xreceiver
	go.opentelemetry.io/collector/scraper => /tmp/wt-C04/scraper
	go.opentelemetry.io/collector/scraper/scraperhelper => /tmp/wt-C04/scraper/scraperhelper
	go.opentelemetry.io/collector/scraper/scrapertest => /tmp/wt-C04/scraper/scrapertest
	go.opentelemetry.io/collector/semconv => /tmp/wt-C04/semconv
	go.opentelemetry.io/collector/service => /tmp/wt-C04/service
	go.opentelemetry.io/collector/service/hostcapabilities => /tmp/wt-C04/service/hostcapabilities
)
