module go.opentelemetry.io/collector/exporter/exporterhelper/verifh

go 1.23.0

require (
	go.opentelemetry.io/collector/component v1.30.0
	go.opentelemetry.io/collector/component/componenttest v0.124.0
	go.opentelemetry.io/collector/exporter v0.124.0
	go.opentelemetry.io/collector/exporter/exporterhelper/xexporterhelper v0.0.0
	go.opentelemetry.io/collector/pdata v1.30.0
	go.opentelemetry.io/collector/pdata/pprofile v0.124.0
	go.opentelemetry.io/collector/pipeline v0.124.0
	go.opentelemetry.io/collector/pipeline/xpipeline v0.124.0
)

require (
	github.com/cenkalti/backoff/v5 v5.0.2 // indirect
	github.com/go-logr/logr v1.4.2 // indirect
	github.com/go-logr/stdr v1.2.2 // indirect
	github.com/go-viper/mapstructure/v2 v2.2.1 // indirect
	github.com/gogo/protobuf v1.3.2 // indirect
	github.com/google/uuid v1.6.0 // indirect
	github.com/hashicorp/go-version v1.7.0 // indirect
	github.com/json-iterator/go v1.1.12 // indirect
	github.com/knadh/koanf/maps v0.1.2 // indirect
	github.com/knadh/koanf/providers/confmap v1.0.0 // indirect
	github.com/knadh/koanf/v2 v2.2.0 // indirect
	github.com/mitchellh/copystructure v1.2.0 // indirect
	github.com/mitchellh/reflectwalk v1.0.2 // indirect
	github.com/modern-go/concurrent v0.0.0-20180306012644-bacd9c7ef1dd // indirect
	github.com/modern-go/reflect2 v1.0.2 // indirect
	go.opentelemetry.io/auto/sdk v1.1.0 // indirect
	go.opentelemetry.io/collector/config/configretry v1.30.0 // indirect
	go.opentelemetry.io/collector/confmap v1.30.0 // indirect
	go.opentelemetry.io/collector/consumer v1.30.0 // indirect
	go.opentelemetry.io/collector/consumer/consumererror v0.124.0 // indirect
	go.opentelemetry.io/collector/consumer/consumererror/xconsumererror v0.124.0 // indirect
	go.opentelemetry.io/collector/consumer/xconsumer v0.124.0 // indirect
	go.opentelemetry.io/collector/exporter/xexporter v0.124.0 // indirect
	go.opentelemetry.io/collector/extension v1.30.0 // indirect
	go.opentelemetry.io/collector/extension/xextension v0.124.0 // indirect
	go.opentelemetry.io/collector/featuregate v1.30.0 // indirect
	go.opentelemetry.io/collector/internal/telemetry v0.124.0 // indirect
	go.opentelemetry.io/contrib/bridges/otelzap v0.10.0 // indirect
	go.opentelemetry.io/otel v1.35.0 // indirect
	go.opentelemetry.io/otel/log v0.11.0 // indirect
	go.opentelemetry.io/otel/metric v1.35.0 // indirect
	go.opentelemetry.io/otel/sdk v1.35.0 // indirect
	go.opentelemetry.io/otel/sdk/metric v1.35.0 // indirect
	go.opentelemetry.io/otel/trace v1.35.0 // indirect
	go.uber.org/multierr v1.11.0 // indirect
	go.uber.org/zap v1.27.0 // indirect
	golang.org/x/net v0.39.0 // indirect
	golang.org/x/sys v0.32.0 // indirect
	golang.org/x/text v0.24.0 // indirect
	google.golang.org/genproto/googleapis/rpc v0.0.0-20250115164207-1a7da9e5054f // indirect
	google.golang.org/grpc v1.71.1 // indirect
	google.golang.org/protobuf v1.36.6 // indirect
	sigs.k8s.io/yaml v1.4.0 // indirect
)

replace (
	go.opentelemetry.io/collector => /tmp/seedrepo.3886
	go.opentelemetry.io/collector/client => /tmp/seedrepo.3886/client
	go.opentelemetry.io/collector/cmd/builder => /tmp/seedrepo.3886/cmd/builder
	go.opentelemetry.io/collector/cmd/mdatagen => /tmp/seedrepo.3886/cmd/mdatagen
	go.opentelemetry.io/collector/cmd/otelcorecol => /tmp/seedrepo.3886/cmd/otelcorecol
	go.opentelemetry.io/collector/component => /tmp/seedrepo.3886/component
	go.opentelemetry.io/collector/component/componentstatus => /tmp/seedrepo.3886/component/componentstatus
	go.opentelemetry.io/collector/component/componenttest => /tmp/seedrepo.3886/component/componenttest
	go.opentelemetry.io/collector/config/configauth => /tmp/seedrepo.3886/config/configauth
	go.opentelemetry.io/collector/config/configcompression => /tmp/seedrepo.3886/config/configcompression
	go.opentelemetry.io/collector/config/configgrpc => /tmp/seedrepo.3886/config/configgrpc
	go.opentelemetry.io/collector/config/confighttp => /tmp/seedrepo.3886/config/confighttp
	go.opentelemetry.io/collector/config/confighttp/xconfighttp => /tmp/seedrepo.3886/config/confighttp/xconfighttp
	go.opentelemetry.io/collector/config/configmiddleware => /tmp/seedrepo.3886/config/configmiddleware
	go.opentelemetry.io/collector/config/confignet => /tmp/seedrepo.3886/config/confignet
	go.opentelemetry.io/collector/config/configopaque => /tmp/seedrepo.3886/config/configopaque
	go.opentelemetry.io/collector/config/configretry => /tmp/seedrepo.3886/config/configretry
	go.opentelemetry.io/collector/config/configtelemetry => /tmp/seedrepo.3886/config/configtelemetry
	go.opentelemetry.io/collector/config/configtls => /tmp/seedrepo.3886/config/configtls
	go.opentelemetry.io/collector/confmap => /tmp/seedrepo.3886/confmap
	go.opentelemetry.io/collector/confmap/internal/e2e => /tmp/seedrepo.3886/confmap/internal/e2e
	go.opentelemetry.io/collector/confmap/provider/envprovider => /tmp/seedrepo.3886/confmap/provider/envprovider
	go.opentelemetry.io/collector/confmap/provider/fileprovider => /tmp/seedrepo.3886/confmap/provider/fileprovider
	go.opentelemetry.io/collector/confmap/provider/httpprovider => /tmp/seedrepo.3886/confmap/provider/httpprovider
	go.opentelemetry.io/collector/confmap/provider/httpsprovider => /tmp/seedrepo.3886/confmap/provider/httpsprovider
	go.opentelemetry.io/collector/confmap/provider/yamlprovider => /tmp/seedrepo.3886/confmap/provider/yamlprovider
	go.opentelemetry.io/collector/confmap/xconfmap => /tmp/seedrepo.3886/confmap/xconfmap
	go.opentelemetry.io/collector/connector => /tmp/seedrepo.3886/connector
	go.opentelemetry.io/collector/connector/connectortest => /tmp/seedrepo.3886/connector/connectortest
	go.opentelemetry.io/collector/connector/forwardconnector => /tmp/seedrepo.3886/connector/forwardconnector
	go.opentelemetry.io/collector/connector/xconnector => /tmp/seedrepo.3886/connector/xconnector
	go.opentelemetry.io/collector/consumer => /tmp/seedrepo.3886/consumer
	go.opentelemetry.io/collector/consumer/consumererror => /tmp/seedrepo.3886/consumer/consumererror
	go.opentelemetry.io/collector/consumer/consumererror/xconsumererror => /tmp/seedrepo.3886/consumer/consumererror/xconsumererror
	go.opentelemetry.io/collector/consumer/consumertest => /tmp/seedrepo.3886/consumer/consumertest
	go.opentelemetry.io/collector/consumer/xconsumer => /tmp/seedrepo.3886/consumer/xconsumer
	go.opentelemetry.io/collector/exporter => /tmp/seedrepo.3886/exporter
	go.opentelemetry.io/collector/exporter/debugexporter => /tmp/seedrepo.3886/exporter/debugexporter
	go.opentelemetry.io/collector/exporter/exporterhelper/xexporterhelper => /tmp/seedrepo.3886/exporter/exporterhelper/xexporterhelper
	go.opentelemetry.io/collector/exporter/exportertest => /tmp/seedrepo.3886/exporter/exportertest
	go.opentelemetry.io/collector/exporter/nopexporter => /tmp/seedrepo.3886/exporter/nopexporter
	go.opentelemetry.io/collector/exporter/otlpexporter => /tmp/seedrepo.3886/exporter/otlpexporter
	go.opentelemetry.io/collector/exporter/otlphttpexporter => /tmp/seedrepo.3886/exporter/otlphttpexporter
	go.opentelemetry.io/collector/exporter/xexporter => /tmp/seedrepo.3886/exporter/xexporter
	go.opentelemetry.io/collector/extension => /tmp/seedrepo.3886/extension
	go.opentelemetry.io/collector/extension/extensionauth => /tmp/seedrepo.3886/extension/extensionauth
	go.opentelemetry.io/collector/extension/extensionauth/extensionauthtest => /tmp/seedrepo.3886/extension/extensionauth/extensionauthtest
	go.opentelemetry.io/collector/extension/extensioncapabilities => /tmp/seedrepo.3886/extension/extensioncapabilities
	go.opentelemetry.io/collector/extension/extensionmiddleware => /tmp/seedrepo.3886/extension/extensionmiddleware
	go.opentelemetry.io/collector/extension/extensionmiddleware/extensionmiddlewaretest => /tmp/seedrepo.3886/extension/extensionmiddleware/extensionmiddlewaretest
	go.opentelemetry.io/collector/extension/extensiontest => /tmp/seedrepo.3886/extension/extensiontest
	go.opentelemetry.io/collector/extension/memorylimiterextension => /tmp/seedrepo.3886/extension/memorylimiterextension
	go.opentelemetry.io/collector/extension/xextension => /tmp/seedrepo.3886/extension/xextension
	go.opentelemetry.io/collector/extension/zpagesextension => /tmp/seedrepo.3886/extension/zpagesextension
	go.opentelemetry.io/collector/featuregate => /tmp/seedrepo.3886/featuregate
	go.opentelemetry.io/collector/filter => /tmp/seedrepo.3886/filter
	go.opentelemetry.io/collector/internal/e2e => /tmp/seedrepo.3886/internal/e2e
	go.opentelemetry.io/collector/internal/fanoutconsumer => /tmp/seedrepo.3886/internal/fanoutconsumer
	go.opentelemetry.io/collector/internal/memorylimiter => /tmp/seedrepo.3886/internal/memorylimiter
	go.opentelemetry.io/collector/internal/sharedcomponent => /tmp/seedrepo.3886/internal/sharedcomponent
	go.opentelemetry.io/collector/internal/telemetry => /tmp/seedrepo.3886/internal/telemetry
	go.opentelemetry.io/collector/internal/tools => /tmp/seedrepo.3886/internal/tools
	go.opentelemetry.io/collector/otelcol => /tmp/seedrepo.3886/otelcol
	go.opentelemetry.io/collector/otelcol/otelcoltest => /tmp/seedrepo.3886/otelcol/otelcoltest
	go.opentelemetry.io/collector/pdata => /tmp/seedrepo.3886/pdata
	go.opentelemetry.io/collector/pdata/pprofile => /tmp/seedrepo.3886/pdata/pprofile
	go.opentelemetry.io/collector/pdata/testdata => /tmp/seedrepo.3886/pdata/testdata
	go.opentelemetry.io/collector/pipeline => /tmp/seedrepo.3886/pipeline
	go.opentelemetry.io/collector/pipeline/xpipeline => /tmp/seedrepo.3886/pipeline/xpipeline
	go.opentelemetry.io/collector/processor => /tmp/seedrepo.3886/processor
	go.opentelemetry.io/collector/processor/batchprocessor => /tmp/seedrepo.3886/processor/batchprocessor
	go.opentelemetry.io/collector/processor/memorylimiterprocessor => /tmp/seedrepo.3886/processor/memorylimiterprocessor
	go.opentelemetry.io/collector/processor/processorhelper => /tmp/seedrepo.3886/processor/processorhelper
	go.opentelemetry.io/collector/processor/processorhelper/xprocessorhelper => /tmp/seedrepo.3886/processor/processorhelper/xprocessorhelper
	go.opentelemetry.io/collector/processor/processortest => /tmp/seedrepo.3886/processor/processortest
	go.opentelemetry.io/collector/processor/xprocessor => /tmp/seedrepo.3886/processor/xprocessor
	go.opentelemetry.io/collector/receiver => /tmp/seedrepo.3886/receiver
	go.opentelemetry.io/collector/receiver/nopreceiver => /tmp/seedrepo.3886/receiver/nopreceiver
	go.opentelemetry.io/collector/receiver/otlpreceiver => /tmp/seedrepo.3886/receiver/otlpreceiver
	go.opentelemetry.io/collector/receiver/receiverhelper => /tmp/seedrepo.3886/receiver/receiverhelper
	go.opentelemetry.io/collector/receiver/receivertest => /tmp/seedrepo.3886/receiver/receivertest
	go.opentelemetry.io/collector/receiver/xreceiver => /tmp/seedrepo.3886/receiver/xreceiver
	go.opentelemetry.io/collector/scraper => /tmp/seedrepo.3886/scraper
	go.opentelemetry.io/collector/scraper/scraperhelper => /tmp/seedrepo.3886/scraper/scraperhelper
	go.opentelemetry.io/collector/scraper/scrapertest => /tmp/seedrepo.3886/scraper/scrapertest
	go.opentelemetry.io/collector/semconv => /tmp/seedrepo.3886/semconv
	go.opentelemetry.io/collector/service => /tmp/seedrepo.3886/service
	go.opentelemetry.io/collector/service/hostcapabilities => /tmp/seedrepo.3886/service/hostcapabilities
)
