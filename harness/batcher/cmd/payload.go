// Payload construction and projection for the C04 (exporter batcher) driver: a copy of
// harness/batchproc/cmd/payload.go extended with profiles and with "big" items (an item whose own
// encoding is several hundred bytes, used for the bytes sizer).
//
// A shape is payload -> resources -> scopes -> metrics -> number of items (see
// specs/Common/TelemetryShape.tla).  Every container gets distinct, non-default values in ALL the
// fields the property statements name: resource attributes + dropped count, resource schema URL,
// scope name/version/attributes/dropped count, scope schema URL and, for metrics, name, unit,
// description, type, temporality, monotonicity and the metadata map.
//
// A fill (specs/Batcher/PayloadFill.tla, masks computed by TLC) says which elements are NOT given
// content but left at their protobuf defaults: items (no attributes, hence no "id": anonymous),
// metrics (no descriptor; without data points not even a type: an empty Metric entry), scopes,
// resources.  Their encodings are empty or minimal.
//
// project() walks a payload as found (input before Consume, output inside the sink) and returns,
// for every item, its id and a context digest: a hash of the canonical rendering of everything
// that encloses the item plus the item's own content.  The digest is what the TLA+ monitor
// compares (it is an opaque tag there); ctxDict maps digests back to the rendering for messages.
// An anonymous item is projected with id -1 and a class (digest of everything but the metric
// descriptor); anonPool gives it the id of an indistinguishable item that entered.
package main

import (
	"crypto/sha1"
	"encoding/hex"
	"encoding/json"
	"fmt"
	"strings"
	"sync"
	"time"

	"go.opentelemetry.io/collector/pdata/pcommon"
	"go.opentelemetry.io/collector/pdata/plog"
	"go.opentelemetry.io/collector/pdata/pmetric"
	"go.opentelemetry.io/collector/pdata/pprofile"
	"go.opentelemetry.io/collector/pdata/ptrace"
)

type shape [][][]int

type item struct {
	ID  int    `json:"id"`
	Ctx string `json:"c"`
	// anonymous item (no "id" attribute, no sample value): it can be counted, not tracked
	anon  bool
	class string // digest of resource, scope, (metric type) and the item's own content: all but the metric descriptor
}

// fill: which elements are left at their defaults (PayloadFill!Mask); nil = none
type fill struct {
	Item     []bool     `json:"item"`
	Metric   [][][]bool `json:"metric"`
	Scope    [][]bool   `json:"scope"`
	Resource []bool     `json:"resource"`
}

func (f *fill) item(j int) bool { return f != nil && j >= 1 && j <= len(f.Item) && f.Item[j-1] }
func (f *fill) metric(ri, si, mi int) bool {
	return f != nil && ri < len(f.Metric) && si < len(f.Metric[ri]) && mi < len(f.Metric[ri][si]) && f.Metric[ri][si][mi]
}
func (f *fill) scope(ri, si int) bool {
	return f != nil && ri < len(f.Scope) && si < len(f.Scope[ri]) && f.Scope[ri][si]
}
func (f *fill) resource(ri int) bool { return f != nil && ri < len(f.Resource) && f.Resource[ri] }

// number gives the anonymous items of a request that was just built the ids their flat positions stand for
// (base + j, what an ordinary item at that position carries in its "id" attribute)
func number(items []item, base int) []item {
	for i := range items {
		if items[i].ID == -1 {
			items[i].ID = base + i + 1
			items[i].anon = true
		}
	}
	return items
}

// anonPool pairs anonymous items that leave with anonymous items that entered (one pool per script, used under the
// recorder's mutex in the order of the recorded events): an item that leaves gets the id of the first item that
// entered with exactly the same context digest and has not left yet -- such items are indistinguishable, any pairing
// among them is as good as any other.  If there is none, the first one of its class (same resource, scope, metric
// type and content: differs in the metric descriptor only) that has not left yet, so that the monitor's Identity
// clause reports the pair.  If there is none either, an id nobody entered (Conservation reports it).
type anonPool struct {
	exact map[string][]int
	class map[string][]int
	left  map[int]bool
	fresh int
}

func (p *anonPool) enter(items []item) {
	if p.exact == nil {
		p.exact, p.class, p.left = map[string][]int{}, map[string][]int{}, map[int]bool{}
	}
	for _, it := range items {
		if it.anon {
			p.exact[it.Ctx] = append(p.exact[it.Ctx], it.ID)
			p.class[it.class] = append(p.class[it.class], it.ID)
		}
	}
}

func (p *anonPool) take(m map[string][]int, key string) (int, bool) {
	q := m[key]
	for len(q) > 0 && p.left[q[0]] {
		q = q[1:]
	}
	if len(q) == 0 {
		delete(m, key)
		return 0, false
	}
	m[key] = q[1:]
	return q[0], true
}

func (p *anonPool) leave(items []item) {
	if p.exact == nil {
		p.exact, p.class, p.left = map[string][]int{}, map[string][]int{}, map[int]bool{}
	}
	for i := range items {
		if items[i].ID != -1 {
			continue
		}
		id, ok := p.take(p.exact, items[i].Ctx)
		if !ok {
			id, ok = p.take(p.class, items[i].class)
		}
		if !ok {
			p.fresh++
			id = 990000 + p.fresh
		}
		p.left[id] = true
		items[i].ID = id
		items[i].anon = true
	}
}

func classOf(canon string) string {
	h := sha1.Sum([]byte(canon))
	return hex.EncodeToString(h[:8])
}

// anonymous items get their class, identified ones do not need it
func mkItem(id int, canon, classCanon string) item {
	it := item{ID: id, Ctx: digest(canon)}
	if id == -1 {
		it.class = classOf(classCanon)
	}
	return it
}

var (
	dictMu  sync.Mutex
	ctxDict = map[string]string{}
)

func digest(canon string) string {
	h := sha1.Sum([]byte(canon))
	d := hex.EncodeToString(h[:8]) // 64 bits: millions of distinct contexts per run, 40 bits collided in the dictionary
	dictMu.Lock()
	ctxDict[d] = canon
	dictMu.Unlock()
	return d
}

var padding = strings.Repeat("0123456789abcdef", 40) // 640 bytes

func rawMap(m pcommon.Map) string {
	b, _ := json.Marshal(m.AsRaw()) // encoding/json sorts map keys
	return string(b)
}

func baseTime(k int) pcommon.Timestamp {
	return pcommon.NewTimestampFromTime(time.Unix(1700000000+int64(k), 0))
}

func fillResource(r pcommon.Resource, tag string, ri int) {
	r.Attributes().PutStr("res", tag)
	r.Attributes().PutInt("ri", int64(ri))
	r.SetDroppedAttributesCount(uint32(ri + 1))
}

func fillScope(s pcommon.InstrumentationScope, tag string, si int) {
	s.SetName("scope-" + tag)
	s.SetVersion(fmt.Sprintf("v%d", si))
	s.Attributes().PutStr("sa", tag)
	s.SetDroppedAttributesCount(uint32(si + 2))
}

// resTag returns the "res" attribute of a resource (s<sid>.r<k>.<ri>): which request it was built for
func resTag(r pcommon.Resource, tags *[]string) {
	if tags == nil {
		return
	}
	if v, ok := r.Attributes().Get("res"); ok {
		*tags = append(*tags, v.Str())
	} else {
		*tags = append(*tags, "?")
	}
}

func canonResource(r pcommon.Resource, schema string) string {
	return fmt.Sprintf("resource{attrs=%s dropped=%d schema_url=%q}", rawMap(r.Attributes()), r.DroppedAttributesCount(), schema)
}

func canonScope(s pcommon.InstrumentationScope, schema string) string {
	return fmt.Sprintf("scope{name=%q version=%q attrs=%s dropped=%d schema_url=%q}", s.Name(), s.Version(),
		rawMap(s.Attributes()), s.DroppedAttributesCount(), schema)
}

func itemID(m pcommon.Map) int {
	v, ok := m.Get("id")
	if !ok {
		return -1
	}
	return int(v.Int())
}

// ---------------------------------------------------------------- logs

func buildLogs(base int, tag string, sh shape, big map[int]bool, f *fill) plog.Logs {
	ld := plog.NewLogs()
	j := 0
	for ri, res := range sh {
		rl := ld.ResourceLogs().AppendEmpty()
		rtag := fmt.Sprintf("%s.%d", tag, ri+1)
		if !f.resource(ri) {
			fillResource(rl.Resource(), rtag, ri)
			rl.SetSchemaUrl("https://schema/res/" + rtag)
		}
		for si, sc := range res {
			sl := rl.ScopeLogs().AppendEmpty()
			stag := fmt.Sprintf("%s.%d", rtag, si+1)
			if !f.scope(ri, si) {
				fillScope(sl.Scope(), stag, si)
				sl.SetSchemaUrl("https://schema/scope/" + stag)
			}
			for _, n := range sc {
				for x := 0; x < n; x++ {
					j++
					lr := sl.LogRecords().AppendEmpty()
					if f.item(j) && !big[j] {
						continue // a log record left at its defaults
					}
					lr.Attributes().PutInt("id", int64(base+j))
					lr.Body().SetStr(fmt.Sprintf("log %d of %s", j, stag))
					lr.SetTimestamp(baseTime(j))
					lr.SetSeverityNumber(plog.SeverityNumber(1 + j%20))
					lr.SetSeverityText("sev")
					if big[j] {
						lr.Attributes().PutStr("pad", padding)
					}
				}
			}
		}
	}
	return ld
}

func projectLogs(ld plog.Logs, tags *[]string) []item {
	var out []item
	for i := 0; i < ld.ResourceLogs().Len(); i++ {
		rl := ld.ResourceLogs().At(i)
		rc := canonResource(rl.Resource(), rl.SchemaUrl())
		resTag(rl.Resource(), tags)
		for k := 0; k < rl.ScopeLogs().Len(); k++ {
			sl := rl.ScopeLogs().At(k)
			sc := canonScope(sl.Scope(), sl.SchemaUrl())
			for x := 0; x < sl.LogRecords().Len(); x++ {
				lr := sl.LogRecords().At(x)
				ic := fmt.Sprintf("log{body=%q ts=%d sev=%d/%q attrs=%s}", lr.Body().AsString(), lr.Timestamp(),
					lr.SeverityNumber(), lr.SeverityText(), rawMap(lr.Attributes()))
				out = append(out, mkItem(itemID(lr.Attributes()), rc+" "+sc+" "+ic, rc+" "+sc+" "+ic))
			}
		}
	}
	return out
}

// ---------------------------------------------------------------- traces

func buildTraces(base int, tag string, sh shape, big map[int]bool, f *fill) ptrace.Traces {
	td := ptrace.NewTraces()
	j := 0
	for ri, res := range sh {
		rs := td.ResourceSpans().AppendEmpty()
		rtag := fmt.Sprintf("%s.%d", tag, ri+1)
		if !f.resource(ri) {
			fillResource(rs.Resource(), rtag, ri)
			rs.SetSchemaUrl("https://schema/res/" + rtag)
		}
		for si, sc := range res {
			ss := rs.ScopeSpans().AppendEmpty()
			stag := fmt.Sprintf("%s.%d", rtag, si+1)
			if !f.scope(ri, si) {
				fillScope(ss.Scope(), stag, si)
				ss.SetSchemaUrl("https://schema/scope/" + stag)
			}
			for _, n := range sc {
				for x := 0; x < n; x++ {
					j++
					sp := ss.Spans().AppendEmpty()
					if f.item(j) && !big[j] {
						continue // a span left at its defaults
					}
					sp.Attributes().PutInt("id", int64(base+j))
					sp.SetName(fmt.Sprintf("span %d of %s", j, stag))
					sp.SetTraceID(pcommon.TraceID([16]byte{1, 2, 3, byte(j), byte(base), byte(base >> 8)}))
					sp.SetSpanID(pcommon.SpanID([8]byte{9, byte(j), byte(base), byte(base >> 8)}))
					sp.SetKind(ptrace.SpanKind(1 + j%5))
					sp.SetStartTimestamp(baseTime(j))
					sp.SetEndTimestamp(baseTime(j + 1))
					sp.Events().AppendEmpty().SetName("ev")
					if big[j] {
						sp.Attributes().PutStr("pad", padding)
					}
				}
			}
		}
	}
	return td
}

func projectTraces(td ptrace.Traces, tags *[]string) []item {
	var out []item
	for i := 0; i < td.ResourceSpans().Len(); i++ {
		rs := td.ResourceSpans().At(i)
		rc := canonResource(rs.Resource(), rs.SchemaUrl())
		resTag(rs.Resource(), tags)
		for k := 0; k < rs.ScopeSpans().Len(); k++ {
			ss := rs.ScopeSpans().At(k)
			sc := canonScope(ss.Scope(), ss.SchemaUrl())
			for x := 0; x < ss.Spans().Len(); x++ {
				sp := ss.Spans().At(x)
				ic := fmt.Sprintf("span{name=%q trace=%s span=%s kind=%d start=%d end=%d events=%d attrs=%s}", sp.Name(),
					sp.TraceID(), sp.SpanID(), sp.Kind(), sp.StartTimestamp(), sp.EndTimestamp(), sp.Events().Len(), rawMap(sp.Attributes()))
				out = append(out, mkItem(itemID(sp.Attributes()), rc+" "+sc+" "+ic, rc+" "+sc+" "+ic))
			}
		}
	}
	return out
}

// ---------------------------------------------------------------- metrics

// metric kinds cycle with the metric's position so that every type / temporality / monotonicity
// combination is split sooner or later
//
// bare: the metric is left at its defaults -- without data points it stays an empty Metric entry (no name, no type);
// with data points it gets its type and a one-letter name, nothing else.  dflt(j): the j-th item of the request is
// left at its defaults (next reports that, the data point is appended and not touched).
func fillMetric(m pmetric.Metric, mtag string, kind int, n int, base int, j *int, big map[int]bool, bare bool, dflt func(int) bool) {
	if bare && n == 0 {
		return
	}
	if bare {
		m.SetName("m")
	} else {
		m.SetName("metric-" + mtag)
		m.SetUnit(fmt.Sprintf("unit%d", kind))
		m.SetDescription("description of " + mtag)
		m.Metadata().PutStr("mk", mtag)
		m.Metadata().PutInt("kind", int64(kind))
	}
	next := func(attrs pcommon.Map) (int, bool) {
		*j++
		if dflt(*j) && !big[*j] {
			return *j, false
		}
		attrs.PutInt("id", int64(base+*j))
		if big[*j] {
			attrs.PutStr("pad", padding)
		}
		return *j, true
	}
	switch kind % 6 {
	case 0:
		g := m.SetEmptyGauge()
		for x := 0; x < n; x++ {
			dp := g.DataPoints().AppendEmpty()
			v, set := next(dp.Attributes())
			if !set {
				continue
			}
			dp.SetIntValue(int64(v))
			dp.SetTimestamp(baseTime(v))
		}
	case 1:
		s := m.SetEmptySum()
		if !bare {
			s.SetAggregationTemporality(pmetric.AggregationTemporalityCumulative)
			s.SetIsMonotonic(true)
		}
		for x := 0; x < n; x++ {
			dp := s.DataPoints().AppendEmpty()
			v, set := next(dp.Attributes())
			if !set {
				continue
			}
			dp.SetDoubleValue(float64(v) + 0.5)
			dp.SetStartTimestamp(baseTime(0))
			dp.SetTimestamp(baseTime(v))
		}
	case 2:
		h := m.SetEmptyHistogram()
		if !bare {
			h.SetAggregationTemporality(pmetric.AggregationTemporalityDelta)
		}
		for x := 0; x < n; x++ {
			dp := h.DataPoints().AppendEmpty()
			v, set := next(dp.Attributes())
			if !set {
				continue
			}
			dp.SetCount(uint64(v))
			dp.SetSum(float64(v))
			dp.ExplicitBounds().FromRaw([]float64{1, 2})
			dp.BucketCounts().FromRaw([]uint64{1, 0, uint64(v)})
			dp.SetTimestamp(baseTime(v))
		}
	case 3:
		h := m.SetEmptyExponentialHistogram()
		if !bare {
			h.SetAggregationTemporality(pmetric.AggregationTemporalityCumulative)
		}
		for x := 0; x < n; x++ {
			dp := h.DataPoints().AppendEmpty()
			v, set := next(dp.Attributes())
			if !set {
				continue
			}
			dp.SetCount(uint64(v))
			dp.SetScale(int32(v % 3))
			dp.SetZeroCount(uint64(v))
			dp.SetTimestamp(baseTime(v))
		}
	case 4:
		s := m.SetEmptySummary()
		for x := 0; x < n; x++ {
			dp := s.DataPoints().AppendEmpty()
			v, set := next(dp.Attributes())
			if !set {
				continue
			}
			dp.SetCount(uint64(v))
			dp.SetSum(float64(v))
			q := dp.QuantileValues().AppendEmpty()
			q.SetQuantile(0.5)
			q.SetValue(float64(v))
			dp.SetTimestamp(baseTime(v))
		}
	case 5:
		s := m.SetEmptySum()
		if !bare {
			s.SetAggregationTemporality(pmetric.AggregationTemporalityDelta)
			s.SetIsMonotonic(false)
		}
		for x := 0; x < n; x++ {
			dp := s.DataPoints().AppendEmpty()
			v, set := next(dp.Attributes())
			if !set {
				continue
			}
			dp.SetIntValue(int64(-v))
			dp.SetTimestamp(baseTime(v))
		}
	}
}

func buildMetrics(base int, tag string, sh shape, big map[int]bool, f *fill) pmetric.Metrics {
	md := pmetric.NewMetrics()
	j := 0
	for ri, res := range sh {
		rm := md.ResourceMetrics().AppendEmpty()
		rtag := fmt.Sprintf("%s.%d", tag, ri+1)
		if !f.resource(ri) {
			fillResource(rm.Resource(), rtag, ri)
			rm.SetSchemaUrl("https://schema/res/" + rtag)
		}
		for si, sc := range res {
			sm := rm.ScopeMetrics().AppendEmpty()
			stag := fmt.Sprintf("%s.%d", rtag, si+1)
			if !f.scope(ri, si) {
				fillScope(sm.Scope(), stag, si)
				sm.SetSchemaUrl("https://schema/scope/" + stag)
			}
			for mi, n := range sc {
				mtag := fmt.Sprintf("%s.%d", stag, mi+1)
				fillMetric(sm.Metrics().AppendEmpty(), mtag, base/1000+ri+si+mi, n, base, &j, big, f.metric(ri, si, mi), f.item)
			}
		}
	}
	return md
}

const shellTag = "!shell"

func metricPoints(m pmetric.Metric) int {
	switch m.Type() {
	case pmetric.MetricTypeGauge:
		return m.Gauge().DataPoints().Len()
	case pmetric.MetricTypeSum:
		return m.Sum().DataPoints().Len()
	case pmetric.MetricTypeHistogram:
		return m.Histogram().DataPoints().Len()
	case pmetric.MetricTypeExponentialHistogram:
		return m.ExponentialHistogram().DataPoints().Len()
	case pmetric.MetricTypeSummary:
		return m.Summary().DataPoints().Len()
	}
	return 0
}

func canonMetric(m pmetric.Metric) string {
	temp, mono := "-", "-"
	switch m.Type() {
	case pmetric.MetricTypeSum:
		temp, mono = m.Sum().AggregationTemporality().String(), fmt.Sprint(m.Sum().IsMonotonic())
	case pmetric.MetricTypeHistogram:
		temp = m.Histogram().AggregationTemporality().String()
	case pmetric.MetricTypeExponentialHistogram:
		temp = m.ExponentialHistogram().AggregationTemporality().String()
	}
	return fmt.Sprintf("metric{name=%q unit=%q description=%q type=%s temporality=%s monotonic=%s metadata=%s}",
		m.Name(), m.Unit(), m.Description(), m.Type(), temp, mono, rawMap(m.Metadata()))
}

func projectMetrics(md pmetric.Metrics, tags *[]string) []item {
	var out []item
	for i := 0; i < md.ResourceMetrics().Len(); i++ {
		rm := md.ResourceMetrics().At(i)
		rc := canonResource(rm.Resource(), rm.SchemaUrl())
		resTag(rm.Resource(), tags)
		for k := 0; k < rm.ScopeMetrics().Len(); k++ {
			sm := rm.ScopeMetrics().At(k)
			sc := canonScope(sm.Scope(), sm.SchemaUrl())
			for x := 0; x < sm.Metrics().Len(); x++ {
				m := sm.Metrics().At(x)
				if tags != nil && m.Name() == "" && m.Type() != pmetric.MetricTypeEmpty && metricPoints(m) == 0 {
					// an unnamed metric that has a type and no data points: not something the driver ever builds (its
					// metrics are named, or are empty entries without a type), it is the shell an extraction leaves in
					// a part when no data point fitted
					*tags = append(*tags, shellTag)
				}
				pre := rc + " " + sc + " " + canonMetric(m) + " "
				cpre := rc + " " + sc + " type=" + m.Type().String() + " "
				add := func(attrs pcommon.Map, content string) {
					pt := "point{" + content + " attrs=" + rawMap(attrs) + "}"
					out = append(out, mkItem(itemID(attrs), pre+pt, cpre+pt))
				}
				switch m.Type() {
				case pmetric.MetricTypeGauge:
					for y := 0; y < m.Gauge().DataPoints().Len(); y++ {
						dp := m.Gauge().DataPoints().At(y)
						add(dp.Attributes(), fmt.Sprintf("ts=%d/%d i=%d d=%g", dp.StartTimestamp(), dp.Timestamp(), dp.IntValue(), dp.DoubleValue()))
					}
				case pmetric.MetricTypeSum:
					for y := 0; y < m.Sum().DataPoints().Len(); y++ {
						dp := m.Sum().DataPoints().At(y)
						add(dp.Attributes(), fmt.Sprintf("ts=%d/%d i=%d d=%g", dp.StartTimestamp(), dp.Timestamp(), dp.IntValue(), dp.DoubleValue()))
					}
				case pmetric.MetricTypeHistogram:
					for y := 0; y < m.Histogram().DataPoints().Len(); y++ {
						dp := m.Histogram().DataPoints().At(y)
						add(dp.Attributes(), fmt.Sprintf("ts=%d count=%d sum=%g buckets=%v bounds=%v", dp.Timestamp(), dp.Count(), dp.Sum(),
							dp.BucketCounts().AsRaw(), dp.ExplicitBounds().AsRaw()))
					}
				case pmetric.MetricTypeExponentialHistogram:
					for y := 0; y < m.ExponentialHistogram().DataPoints().Len(); y++ {
						dp := m.ExponentialHistogram().DataPoints().At(y)
						add(dp.Attributes(), fmt.Sprintf("ts=%d count=%d scale=%d zero=%d", dp.Timestamp(), dp.Count(), dp.Scale(), dp.ZeroCount()))
					}
				case pmetric.MetricTypeSummary:
					for y := 0; y < m.Summary().DataPoints().Len(); y++ {
						dp := m.Summary().DataPoints().At(y)
						add(dp.Attributes(), fmt.Sprintf("ts=%d count=%d sum=%g q=%d", dp.Timestamp(), dp.Count(), dp.Sum(), dp.QuantileValues().Len()))
					}
				}
			}
		}
	}
	return out
}

// ---------------------------------------------------------------- profiles
// The metric level of a shape becomes a Profile (a container with its own identity); the items are
// its samples.  A sample has no attribute map: its id is its first value.

func buildProfiles(base int, tag string, sh shape, big map[int]bool, f *fill) pprofile.Profiles {
	pd := pprofile.NewProfiles()
	j := 0
	for ri, res := range sh {
		rp := pd.ResourceProfiles().AppendEmpty()
		rtag := fmt.Sprintf("%s.%d", tag, ri+1)
		if !f.resource(ri) {
			fillResource(rp.Resource(), rtag, ri)
			rp.SetSchemaUrl("https://schema/res/" + rtag)
		}
		for si, sc := range res {
			sp := rp.ScopeProfiles().AppendEmpty()
			stag := fmt.Sprintf("%s.%d", rtag, si+1)
			if !f.scope(ri, si) {
				fillScope(sp.Scope(), stag, si)
				sp.SetSchemaUrl("https://schema/scope/" + stag)
			}
			for mi, n := range sc {
				p := sp.Profiles().AppendEmpty()
				if !f.metric(ri, si, mi) { // otherwise: a profile left at its defaults
					p.SetProfileID(pprofile.ProfileID([16]byte{7, byte(ri), byte(si), byte(mi), byte(base / 1000), byte(base / 256000)}))
					p.SetTime(baseTime(mi))
					p.SetPeriod(int64(10 + mi))
					p.SetOriginalPayloadFormat(fmt.Sprintf("fmt-%s.%d", stag, mi+1))
					p.SetDroppedAttributesCount(uint32(mi + 3))
					p.StringTable().Append("", "cpu", "ns")
				}
				for x := 0; x < n; x++ {
					j++
					s := p.Sample().AppendEmpty()
					if f.item(j) && !big[j] {
						continue // a sample left at its defaults: no value, hence no id
					}
					s.Value().Append(int64(base+j), int64(j))
					s.TimestampsUnixNano().Append(uint64(1700000000 + j))
					s.SetLocationsLength(int32(j % 3))
					if big[j] {
						for y := 0; y < 80; y++ {
							s.TimestampsUnixNano().Append(uint64(1<<62 + y))
						}
					}
				}
			}
		}
	}
	return pd
}

func projectProfiles(pd pprofile.Profiles, tags *[]string) []item {
	var out []item
	for i := 0; i < pd.ResourceProfiles().Len(); i++ {
		rp := pd.ResourceProfiles().At(i)
		rc := canonResource(rp.Resource(), rp.SchemaUrl())
		resTag(rp.Resource(), tags)
		for k := 0; k < rp.ScopeProfiles().Len(); k++ {
			sp := rp.ScopeProfiles().At(k)
			sc := canonScope(sp.Scope(), sp.SchemaUrl())
			for x := 0; x < sp.Profiles().Len(); x++ {
				p := sp.Profiles().At(x)
				pc := fmt.Sprintf("profile{id=%s time=%d period=%d format=%q dropped=%d strings=%v}", p.ProfileID(), p.Time(), p.Period(),
					p.OriginalPayloadFormat(), p.DroppedAttributesCount(), p.StringTable().AsRaw())
				for y := 0; y < p.Sample().Len(); y++ {
					s := p.Sample().At(y)
					id := -1
					if s.Value().Len() > 0 {
						id = int(s.Value().At(0))
					}
					ic := fmt.Sprintf("sample{values=%v ts=%d loclen=%d}", s.Value().AsRaw(), s.TimestampsUnixNano().Len(), s.LocationsLength())
					out = append(out, mkItem(id, rc+" "+sc+" "+pc+" "+ic, rc+" "+sc+" "+pc+" "+ic))
				}
			}
		}
	}
	return out
}
