// Conformance driver for C04 (exporter-side batching).
//
//	batcher run <scripts.ndjson> <trace.ndjson> <results.json>
//	batcher worker <scripts.ndjson> <from> <trace-part> <results-part>     (internal)
//
// `run` executes the scripts in worker sub-processes: a worker is killed by its own watchdog when a
// script does not finish within 10 s or the heap passes 1 GiB (MergeSplit that never terminates
// allocates without bound); the script is then run once more alone to confirm, and the run goes on
// with the next script -- skipping further scripts of the same class (kind, signal, sizer), whose
// verdict is decided by then.
//
// Requests are real exporterhelper requests obtained through the public API
// New{Logs,Traces,Metrics}QueueBatchSettings().Encoding.Unmarshal(bytes) (xexporterhelper for
// profiles).  Two kinds of script:
//
//	split  a sequence of requests folded through Request.MergeSplit the way the batcher does:
//	       cur = first.MergeSplit(nil); then cur.MergeSplit(next) ...; every returned part except the
//	       last is emitted, the last becomes the new current request; at the end it is emitted too
//	batch  the same requests sent concurrently through the real queue + batcher
//	       (queuebatch.NewQueueBatch, memory queue, wait_for_result = true): Send returning is the
//	       completion callback of the request as seen from outside; the requests are wrapped (obsReq)
//	       so that what MergeSplit returns inside the batcher is recorded too ("split" events)
//
// Everything observable is recorded (projection of every request handed in, projection and
// independently measured size of every part handed to the export function, start and end of every
// export call, return of every Send) for the TLA+ monitor specs/Batcher/BatcherTrace.tla.
//
// A request may come with a fill (specs/Batcher/PayloadFill.tla): elements left at their protobuf
// defaults, whose encoding is empty or minimal.  Items left at their defaults carry no id; the
// recorder pairs those that leave with indistinguishable ones that entered (anonPool, payload.go).
package main

import (
	"bufio"
	"context"
	"encoding/json"
	"errors"
	"fmt"
	"os"
	"os/exec"
	"runtime"
	"sort"
	"strconv"
	"strings"
	"sync"
	"time"

	"go.opentelemetry.io/collector/component"
	"go.opentelemetry.io/collector/component/componenttest"
	"go.opentelemetry.io/collector/exporter/exporterhelper"
	"go.opentelemetry.io/collector/exporter/exporterhelper/internal/queuebatch"
	"go.opentelemetry.io/collector/exporter/exporterhelper/internal/request"
	"go.opentelemetry.io/collector/exporter/exporterhelper/xexporterhelper"
	"go.opentelemetry.io/collector/pdata/plog"
	"go.opentelemetry.io/collector/pdata/pmetric"
	"go.opentelemetry.io/collector/pdata/pprofile"
	"go.opentelemetry.io/collector/pdata/ptrace"
	"go.opentelemetry.io/collector/pipeline"
	"go.opentelemetry.io/collector/pipeline/xpipeline"
)

type reqSpec struct {
	Shape shape `json:"shape"`
	Big   []int `json:"big"`    // flat positions (1-based) of items with a large encoding
	Fill  *fill `json:"fill"`   // elements left at their defaults (PayloadFill!Mask); absent = none
	GapUs int   `json:"gap_us"` // batch kind: delay before the Send
}

type script struct {
	Sid     int       `json:"sid"`
	Kind    string    `json:"kind"`
	Signal  string    `json:"signal"`
	Sizer   string    `json:"sizer"`
	Max     int       `json:"max"`
	Min     int       `json:"min"`
	FlushMs int       `json:"flush_ms"`
	Reqs    []reqSpec `json:"reqs"`
	Expect  [][][]int `json:"expect"` // split kind, items sizer: specified parts as [[k, j], ...]
	Fail    []int     `json:"fail"`   // batch kind: export calls (1-based) that fail
	DelayUs int       `json:"export_delay_us"`
}

// ---------------------------------------------------------------- signals

type signal struct {
	set     exporterhelper.QueueBatchSettings
	sig     pipeline.Signal
	build   func(base int, tag string, sh shape, big map[int]bool, f *fill) ([]byte, []item)
	project func(b []byte) ([]item, []int, error)
}

func signals() map[string]*signal {
	lm, lu := &plog.ProtoMarshaler{}, &plog.ProtoUnmarshaler{}
	tm, tu := &ptrace.ProtoMarshaler{}, &ptrace.ProtoUnmarshaler{}
	mm, mu := &pmetric.ProtoMarshaler{}, &pmetric.ProtoUnmarshaler{}
	pm, pu := &pprofile.ProtoMarshaler{}, &pprofile.ProtoUnmarshaler{}
	return map[string]*signal{
		"logs": {set: exporterhelper.NewLogsQueueBatchSettings(), sig: pipeline.SignalLogs,
			build: func(base int, tag string, sh shape, big map[int]bool, f *fill) ([]byte, []item) {
				ld := buildLogs(base, tag, sh, big, f)
				b, _ := lm.MarshalLogs(ld)
				return b, number(projectLogs(ld, nil), base)
			},
			project: func(b []byte) ([]item, []int, error) {
				ld, err := lu.UnmarshalLogs(b)
				if err != nil {
					return nil, nil, err
				}
				var tags []string
				items := projectLogs(ld, &tags)
				return items, reqNumbers(tags), nil
			}},
		"traces": {set: exporterhelper.NewTracesQueueBatchSettings(), sig: pipeline.SignalTraces,
			build: func(base int, tag string, sh shape, big map[int]bool, f *fill) ([]byte, []item) {
				td := buildTraces(base, tag, sh, big, f)
				b, _ := tm.MarshalTraces(td)
				return b, number(projectTraces(td, nil), base)
			},
			project: func(b []byte) ([]item, []int, error) {
				td, err := tu.UnmarshalTraces(b)
				if err != nil {
					return nil, nil, err
				}
				var tags []string
				items := projectTraces(td, &tags)
				return items, reqNumbers(tags), nil
			}},
		"metrics": {set: exporterhelper.NewMetricsQueueBatchSettings(), sig: pipeline.SignalMetrics,
			build: func(base int, tag string, sh shape, big map[int]bool, f *fill) ([]byte, []item) {
				md := buildMetrics(base, tag, sh, big, f)
				b, _ := mm.MarshalMetrics(md)
				return b, number(projectMetrics(md, nil), base)
			},
			project: func(b []byte) ([]item, []int, error) {
				md, err := mu.UnmarshalMetrics(b)
				if err != nil {
					return nil, nil, err
				}
				var tags []string
				items := projectMetrics(md, &tags)
				reqs := reqNumbers(tags)
				for _, tg := range tags {
					if tg == shellTag {
						reqs = append(reqs, shellMark) // reported as "shells" by measure
					}
				}
				return items, reqs, nil
			}},
		"profiles": {set: xexporterhelper.NewProfilesQueueBatchSettings(), sig: xpipeline.SignalProfiles,
			build: func(base int, tag string, sh shape, big map[int]bool, f *fill) ([]byte, []item) {
				pd := buildProfiles(base, tag, sh, big, f)
				b, _ := pm.MarshalProfiles(pd)
				return b, number(projectProfiles(pd, nil), base)
			},
			project: func(b []byte) ([]item, []int, error) {
				pd, err := pu.UnmarshalProfiles(b)
				if err != nil {
					return nil, nil, err
				}
				var tags []string
				items := projectProfiles(pd, &tags)
				return items, reqNumbers(tags), nil
			}},
	}
}

// request numbers (k of tag s<sid>.r<k>.<ri>) whose containers are present, sorted, without duplicates
func reqNumbers(tags []string) []int {
	seen := map[int]bool{}
	out := []int{}
	for _, tg := range tags {
		if tg == shellTag {
			continue
		}
		k := -1
		if i := strings.Index(tg, ".r"); i >= 0 {
			rest := tg[i+2:]
			if j := strings.Index(rest, "."); j >= 0 {
				rest = rest[:j]
			}
			if v, err := strconv.Atoi(rest); err == nil {
				k = v
			}
		}
		if !seen[k] {
			seen[k] = true
			out = append(out, k)
		}
	}
	sort.Ints(out)
	return out
}

func sizerType(s string) exporterhelper.RequestSizerType {
	if s == "bytes" {
		return exporterhelper.RequestSizerTypeBytes
	}
	return exporterhelper.RequestSizerTypeItems
}

// ---------------------------------------------------------------- recorder

type recorder struct {
	mu     sync.Mutex
	events []map[string]any
	closed bool
	calls  int
	what   string   // what the script is doing right now (for the watchdog message)
	pool   anonPool // ids of anonymous items (payload.go), used inside log()
}

func (r *recorder) log(ev map[string]any, f func()) {
	r.mu.Lock()
	defer r.mu.Unlock()
	if r.closed {
		return
	}
	if f != nil {
		f()
	}
	r.events = append(r.events, ev)
}

func (r *recorder) doing(w string) {
	r.mu.Lock()
	r.what = w
	r.mu.Unlock()
}

func nonNil(it []item) []item {
	if it == nil {
		return []item{}
	}
	return it
}

// measured independently of the request's cached size: items as found, bytes of its encoding
const shellMark = -1000

type measured struct {
	items  []item
	reqs   []int
	shells int // unnamed metrics without data points found in the part
	size   int
}

func measure(sg *signal, s *script, req exporterhelper.Request) (measured, error) {
	b, err := sg.set.Encoding.Marshal(req)
	if err != nil {
		return measured{}, err
	}
	items, all, err := sg.project(b)
	if err != nil {
		return measured{}, err
	}
	m := measured{items: nonNil(items), reqs: []int{}, size: len(items)}
	for _, k := range all {
		if k == shellMark {
			m.shells++
		} else {
			m.reqs = append(m.reqs, k)
		}
	}
	if s.Sizer == "bytes" {
		m.size = len(b)
	}
	return m, nil
}

func makeReq(sg *signal, s *script, k int) (exporterhelper.Request, []item, error) {
	big := map[int]bool{}
	for _, p := range s.Reqs[k].Big {
		big[p] = true
	}
	b, items := sg.build((100+k+1)*1000, fmt.Sprintf("s%d.r%d", s.Sid, k+1), s.Reqs[k].Shape, big, s.Reqs[k].Fill)
	req, err := sg.set.Encoding.Unmarshal(b)
	return req, nonNil(items), err
}

type result struct {
	Sid       int    `json:"sid"`
	Error     string `json:"error,omitempty"`     // the driver could not run the script
	Hang      string `json:"hang,omitempty"`      // what did not finish (10 s / 1 GiB watchdog)
	Confirmed bool   `json:"confirmed,omitempty"` // the hang was observed again when re-run alone
	Skipped   bool   `json:"skipped,omitempty"`   // not run: a script of the same class (kind, signal, sizer) did not terminate before
	Strict    string `json:"strict,omitempty"`    // split kind, items sizer: divergence from the specified parts
	Parts     int    `json:"parts"`
}

var errExport = errors.New("export fails")

// obsReq lets the driver see what Request.MergeSplit returns INSIDE the batcher (batch scripts): it wraps a real request,
// delegates everything to it, and records for every call which request came in (the batcher calls MergeSplit exactly once
// per consumed request: the order of these records is the order in which the batcher consumed the requests) and the parts
// that came back -- how many items each holds and the requests whose containers it holds.  A part without any item
// (container shells only) is otherwise invisible when the batcher keeps it as its current batch.  The batcher only ever
// sees obsReq values (sizers and encoding unwrap them).
type obsReq struct {
	inner exporterhelper.Request
	o     *observer
	req   int // the script's request number, 0 for a part returned by MergeSplit
}

type observer struct {
	s   *script
	sg  *signal
	rec *recorder
}

func (o *observer) wrap(r exporterhelper.Request, k int) request.Request {
	return &obsReq{inner: r, o: o, req: k}
}

func unwrap(r request.Request) exporterhelper.Request {
	if w, ok := r.(*obsReq); ok {
		return w.inner
	}
	return r
}

func (r *obsReq) ItemsCount() int { return r.inner.ItemsCount() }

func (r *obsReq) MergeSplit(ctx context.Context, max int, szt request.SizerType, r2 request.Request) ([]request.Request, error) {
	var in2 request.Request
	incoming := r.req
	if r2 != nil {
		in2 = unwrap(r2)
		incoming = 0
		if w, ok := r2.(*obsReq); ok {
			incoming = w.req
		}
	}
	lst, err := r.inner.MergeSplit(ctx, max, szt, in2)
	out := make([]request.Request, len(lst))
	parts := make([]map[string]any, len(lst))
	for i, p := range lst {
		out[i] = r.o.wrap(p, 0)
		n, reqs := -1, []int{}
		if m, merr := measure(r.o.sg, r.o.s, p); merr == nil {
			n, reqs = len(m.items), m.reqs
		}
		parts[i] = map[string]any{"n": n, "reqs": reqs}
	}
	r.o.rec.log(map[string]any{"ev": "split", "req": incoming, "merged": r2 != nil, "parts": parts}, nil)
	return out, err
}

type unwrapSizer struct{ inner request.Sizer[request.Request] }

func (u unwrapSizer) Sizeof(r request.Request) int64 { return u.inner.Sizeof(unwrap(r)) }

type unwrapEncoding struct {
	inner queuebatch.Encoding[request.Request]
	o     *observer
}

func (u unwrapEncoding) Marshal(r request.Request) ([]byte, error) { return u.inner.Marshal(unwrap(r)) }
func (u unwrapEncoding) Unmarshal(b []byte) (request.Request, error) {
	r, err := u.inner.Unmarshal(b)
	if err != nil {
		return nil, err
	}
	return u.o.wrap(r, 0), nil
}

func runSplit(s *script, sg *signal, rec *recorder, res *result) {
	var reqs []exporterhelper.Request
	for k := range s.Reqs {
		req, items, err := makeReq(sg, s, k)
		if err != nil {
			res.Error = err.Error()
			return
		}
		rec.log(map[string]any{"ev": "consume", "req": k + 1, "items": items}, func() { rec.pool.enter(items) })
		reqs = append(reqs, req)
	}
	var got [][]int
	emit := func(r exporterhelper.Request) bool {
		m, err := measure(sg, s, r)
		if err != nil {
			res.Error = "cannot project a returned part: " + err.Error()
			return false
		}
		items := m.items
		rec.calls++
		rec.log(map[string]any{"ev": "emit", "k": rec.calls, "items": items, "reqs": m.reqs, "shells": m.shells, "size": m.size},
			func() { rec.pool.leave(items) })
		rec.log(map[string]any{"ev": "emit_end", "k": rec.calls, "ok": true}, nil)
		ids := []int{}
		for _, it := range items {
			ids = append(ids, it.ID)
		}
		got = append(got, ids)
		return true
	}
	var cur exporterhelper.Request
	for k, r := range reqs {
		var lst []exporterhelper.Request
		var err error
		rec.doing(fmt.Sprintf("MergeSplit of request %d (%s sizer, max %d)", k+1, s.Sizer, s.Max))
		if cur == nil {
			lst, err = r.MergeSplit(context.Background(), s.Max, sizerType(s.Sizer), nil)
		} else {
			lst, err = cur.MergeSplit(context.Background(), s.Max, sizerType(s.Sizer), r)
		}
		rec.doing("")
		if err != nil || len(lst) == 0 {
			res.Error = fmt.Sprintf("MergeSplit returned %d parts, err %v", len(lst), err)
			return
		}
		for _, p := range lst[:len(lst)-1] {
			if !emit(p) {
				return
			}
		}
		cur = lst[len(lst)-1]
	}
	if cur != nil && !emit(cur) {
		return
	}
	res.Parts = len(got)
	rec.log(map[string]any{"ev": "quiesce"}, nil)
	if s.Expect != nil {
		var want [][]int
		for _, p := range s.Expect {
			ids := []int{}
			for _, kj := range p {
				ids = append(ids, (100+kj[0])*1000+kj[1])
			}
			want = append(want, ids)
		}
		if fmt.Sprint(want) != fmt.Sprint(got) {
			res.Strict = fmt.Sprintf("parts differ: specified %v, returned %v", want, got)
		}
	}
}

func runBatch(s *script, sg *signal, rec *recorder, res *result) {
	fail := map[int]bool{}
	for _, k := range s.Fail {
		fail[k] = true
	}
	obs := &observer{s: s, sg: sg, rec: rec}
	sizers := map[request.SizerType]request.Sizer[request.Request]{}
	for k, v := range sg.set.Sizers {
		sizers[k] = unwrapSizer{v}
	}
	export := func(_ context.Context, req request.Request) error {
		m, err := measure(sg, s, unwrap(req))
		if err != nil {
			m = measured{items: []item{}, reqs: []int{}, size: -1}
		}
		var k int
		var ferr error
		ev := map[string]any{"ev": "emit", "items": m.items, "reqs": m.reqs, "shells": m.shells, "size": m.size}
		rec.log(ev, func() {
			rec.calls++
			k = rec.calls
			ev["k"] = k
			if fail[k] {
				ferr = errExport
			}
			rec.pool.leave(m.items)
		})
		if s.DelayUs > 0 {
			time.Sleep(time.Duration(s.DelayUs) * time.Microsecond)
		}
		rec.log(map[string]any{"ev": "emit_end", "k": k, "ok": ferr == nil}, nil)
		return ferr
	}
	cfg := queuebatch.Config{Enabled: true, WaitForResult: true, Sizer: sizerType(s.Sizer), QueueSize: 1 << 40,
		BlockOnOverflow: true, NumConsumers: 1,
		Batch: &queuebatch.BatchConfig{FlushTimeout: time.Duration(s.FlushMs) * time.Millisecond, MinSize: int64(s.Min), MaxSize: int64(s.Max)}}
	if err := cfg.Validate(); err != nil {
		res.Error = "config rejected: " + err.Error()
		return
	}
	if err := cfg.Batch.Validate(); err != nil {
		res.Error = "batch config rejected: " + err.Error()
		return
	}
	qb, err := queuebatch.NewQueueBatch(queuebatch.Settings[request.Request]{Signal: sg.sig, ID: component.MustNewID("verif"),
		Telemetry: componenttest.NewNopTelemetrySettings(), Encoding: unwrapEncoding{sg.set.Encoding, obs}, Sizers: sizers}, cfg, export)
	if err != nil {
		res.Error = err.Error()
		return
	}
	if err := startC(func(sc context.Context) error { return qb.Start(sc, componenttest.NewNopHost()) }); err != nil {
		res.Error = err.Error()
		return
	}
	var wg sync.WaitGroup
	for k := range s.Reqs {
		req, items, err := makeReq(sg, s, k)
		if err != nil {
			res.Error = err.Error()
			return
		}
		wg.Add(1)
		go func(k int) {
			defer wg.Done()
			if g := s.Reqs[k].GapUs; g > 0 {
				time.Sleep(time.Duration(g) * time.Microsecond)
			}
			rec.log(map[string]any{"ev": "consume", "req": k + 1, "items": items}, func() { rec.pool.enter(items) })
			err := qb.Send(context.Background(), obs.wrap(req, k+1))
			cls := "ok"
			if err != nil {
				cls = "other:" + err.Error()
				if errors.Is(err, errExport) {
					cls = "export"
				}
			}
			rec.log(map[string]any{"ev": "done", "req": k + 1, "err": err != nil, "cls": cls}, nil)
		}(k)
	}
	rec.doing(fmt.Sprintf("waiting for %d Send calls to return (%s sizer, max %d, min %d)", len(s.Reqs), s.Sizer, s.Max, s.Min))
	wg.Wait()
	rec.doing("Shutdown")
	_ = qb.Shutdown(context.Background())
	rec.doing("")
	res.Parts = rec.calls
	rec.log(map[string]any{"ev": "quiesce"}, nil)
}

// ---------------------------------------------------------------- worker / parent

func readScripts(path string) []*script {
	f, err := os.Open(path)
	if err != nil {
		panic(err)
	}
	defer f.Close()
	var out []*script
	sc := bufio.NewScanner(f)
	sc.Buffer(make([]byte, 1<<20), 1<<28)
	for sc.Scan() {
		if len(sc.Bytes()) == 0 {
			continue
		}
		s := &script{}
		if err := json.Unmarshal(sc.Bytes(), s); err != nil {
			panic(fmt.Sprintf("script line %d: %v", len(out)+1, err))
		}
		out = append(out, s)
	}
	return out
}

type output struct {
	trace   *bufio.Writer
	tf      *os.File
	results []result
	rpath   string
}

func (o *output) flush(rec *recorder, final bool) {
	enc := json.NewEncoder(o.trace)
	for _, e := range rec.events {
		_ = enc.Encode(e)
	}
	o.trace.Flush()
	if !final {
		return
	}
	dictMu.Lock()
	b, _ := json.Marshal(map[string]any{"results": o.results, "ctx": ctxDict})
	dictMu.Unlock()
	_ = os.WriteFile(o.rpath, b, 0o644)
}

const (
	exitHang    = 3
	scriptLimit = 10 * time.Second
	heapLimit   = 1 << 30
)

func class(s *script) string { return s.Kind + "/" + s.Signal + "/" + s.Sizer }

func worker(spath string, from, only int, tpath, rpath string, skip map[string]bool) {
	scripts := readScripts(spath)
	sgs := signals()
	tf, err := os.Create(tpath)
	if err != nil {
		panic(err)
	}
	out := &output{trace: bufio.NewWriterSize(tf, 1<<20), tf: tf, rpath: rpath}
	for i := from; i < len(scripts); i++ {
		s := scripts[i]
		rec := &recorder{}
		out.results = append(out.results, result{Sid: s.Sid})
		res := &out.results[len(out.results)-1]
		if skip[class(s)] && only < 0 {
			res.Skipped = true
			if i == len(scripts)-1 {
				out.flush(rec, true)
			}
			continue
		}
		rec.log(map[string]any{"ev": "reset", "sid": s.Sid, "kind": s.Kind, "signal": s.Signal, "sizer": s.Sizer, "max": s.Max, "min": s.Min}, nil)
		finished := make(chan struct{})
		go func() {
			defer close(finished)
			sg := sgs[s.Signal]
			if sg == nil {
				res.Error = "unknown signal " + s.Signal
				return
			}
			if s.Kind == "split" {
				runSplit(s, sg, rec, res)
			} else {
				runBatch(s, sg, rec, res)
			}
		}()
		deadline := time.After(scriptLimit + time.Duration(3*s.FlushMs)*time.Millisecond)
		tick := time.NewTicker(20 * time.Millisecond)
		hang := ""
	wait:
		for {
			select {
			case <-finished:
				break wait
			case <-deadline:
				hang = "did not finish within 10 s"
				break wait
			case <-tick.C:
				var ms runtime.MemStats
				runtime.ReadMemStats(&ms)
				if ms.HeapAlloc > heapLimit {
					hang = "did not finish before the heap passed 1 GiB"
					break wait
				}
			}
		}
		tick.Stop()
		if hang != "" {
			rec.mu.Lock()
			rec.closed = true
			res.Hang = rec.what + " " + hang
			rec.events = append(rec.events, map[string]any{"ev": "timeout", "what": res.Hang})
			rec.mu.Unlock()
			out.flush(rec, true)
			os.Exit(exitHang)
		}
		rec.mu.Lock()
		rec.closed = true
		rec.mu.Unlock()
		out.flush(rec, only >= 0 || i == len(scripts)-1)
		if only >= 0 {
			break
		}
	}
	os.Exit(0)
}

func parent(spath, tpath, rpath string) {
	n := len(readScripts(spath))
	tout, err := os.Create(tpath)
	if err != nil {
		panic(err)
	}
	defer tout.Close()
	var results []result
	ctx := map[string]string{}
	type part struct {
		Results []result          `json:"results"`
		Ctx     map[string]string `json:"ctx"`
	}
	skip := map[string]bool{}
	scripts := readScripts(spath)
	runWorker := func(from, only int) (part, []byte, int) {
		tp, rp := tpath+".part", rpath+".part"
		os.Remove(tp)
		os.Remove(rp)
		var sk []string
		for c := range skip {
			sk = append(sk, c)
		}
		cmd := exec.Command(os.Args[0], "worker", spath, strconv.Itoa(from), strconv.Itoa(only), tp, rp, strings.Join(sk, ","))
		cmd.Stderr = os.Stderr
		err := cmd.Run()
		code := 0
		if err != nil {
			code = -1
			var ee *exec.ExitError
			if errors.As(err, &ee) {
				code = ee.ExitCode()
			}
		}
		var p part
		if b, err := os.ReadFile(rp); err == nil {
			_ = json.Unmarshal(b, &p)
		}
		tb, _ := os.ReadFile(tp)
		os.Remove(tp)
		os.Remove(rp)
		return p, tb, code
	}
	hangs := 0
	for from := 0; from < n; {
		p, tb, code := runWorker(from, -1)
		if code != 0 && code != exitHang {
			fmt.Fprintf(os.Stderr, "worker failed with exit code %d at script index %d\n", code, from+len(p.Results))
			os.Exit(1)
		}
		for k, v := range p.Ctx {
			ctx[k] = v
		}
		if code == exitHang && len(p.Results) > 0 {
			// confirm once: run the script that hung alone in a fresh process
			idx := from + len(p.Results) - 1
			p2, tb2, code2 := runWorker(idx, idx)
			if code2 == exitHang && len(p2.Results) == 1 {
				p.Results[len(p.Results)-1].Confirmed = true
				hangs++
				// the verdict for this class of scripts is decided: do not spend minutes on more of the same
				skip[class(scripts[idx])] = true
			} else if code2 == 0 && len(p2.Results) == 1 {
				// not reproduced: keep the second run's observations for this script
				cut := lastReset(tb)
				tb = append(tb[:cut], tb2...)
				p.Results[len(p.Results)-1] = p2.Results[0]
				for k, v := range p2.Ctx {
					ctx[k] = v
				}
			}
		}
		tout.Write(tb)
		results = append(results, p.Results...)
		from += len(p.Results)
		if len(p.Results) == 0 {
			fmt.Fprintln(os.Stderr, "worker made no progress")
			os.Exit(1)
		}
	}
	fmt.Fprintln(tout, `{"ev":"end"}`)
	b, _ := json.Marshal(map[string]any{"results": results, "ctx": ctx, "scripts": n, "hangs": hangs})
	if err := os.WriteFile(rpath, b, 0o644); err != nil {
		panic(err)
	}
}

// offset of the last {"ev":"reset"...} line in a trace part
func lastReset(tb []byte) int {
	pat := []byte(`{"ev":"reset"`)
	for i := len(tb) - len(pat); i >= 0; i-- {
		if (i == 0 || tb[i-1] == '\n') && string(tb[i:i+len(pat)]) == string(pat) {
			return i
		}
	}
	return 0
}

func main() {
	if len(os.Args) >= 5 && os.Args[1] == "run" {
		parent(os.Args[2], os.Args[3], os.Args[4])
		return
	}
	if len(os.Args) >= 8 && os.Args[1] == "worker" {
		from, _ := strconv.Atoi(os.Args[3])
		only, _ := strconv.Atoi(os.Args[4])
		skip := map[string]bool{}
		for _, c := range strings.Split(os.Args[7], ",") {
			if c != "" {
				skip[c] = true
			}
		}
		worker(os.Args[2], from, only, os.Args[5], os.Args[6], skip)
		return
	}
	fmt.Fprintln(os.Stderr, "usage: batcher run <scripts.ndjson> <trace.ndjson> <results.json>")
	os.Exit(2)
}

// startC calls a component's Start with a context that is cancelled as soon as Start has returned: component.Component
// says that context "will be cancelled soon", so nothing that has to outlive Start may depend on it.
func startC(start func(context.Context) error) error {
	ctx, cancel := context.WithCancel(context.Background())
	defer cancel()
	return start(ctx)
}
