// Conformance driver for C16 (HTTP body compression round trip + decompressed size limit).
//
//	httpingress run <plan.ndjson> <observed.ndjson> <seed> <workers>
//
// Every plan line {id, enc, enabled[], size, max, kind, level} is one concrete request.  It is sent
// through the real confighttp.ClientConfig.ToClient (compression configured from enc/level; a coding
// outside the supported set is announced by hand) to a real confighttp.ServerConfig.ToServer
// (MaxRequestBodySize = max, CompressionAlgorithms = enabled, "identity" standing for "") listening on
// 127.0.0.1:0, with a probe handler behind the middleware that reads the whole body.
// The same client first sends the same body to a plain capture server (no confighttp middleware) to
// measure the length of the body on the wire.  One observation line per plan line is written:
//
//	{id, req:{enc,enabled,n,w,max}, obs:{ran,status,nread,rerr,eq}, extra:{...}}
//
// The driver compares nothing itself: the clauses are evaluated by TLC (IngressMonitor.tla).
package main

import (
	"errors"
	"bufio"
	"bytes"
	"context"
	"crypto/sha256"
	"encoding/json"
	"fmt"
	"io"
	"math/rand"
	"net"
	"net/http"
	"os"
	"sort"
	"strconv"
	"strings"
	"sync"
	"time"

	"go.opentelemetry.io/collector/component"
	"go.opentelemetry.io/collector/component/componenttest"
	"go.opentelemetry.io/collector/config/configauth"
	"go.opentelemetry.io/collector/config/configcompression"
	"go.opentelemetry.io/collector/config/confighttp"
)

type planLine struct {
	ID      int      `json:"id"`
	Enc     string   `json:"enc"`
	Enabled []string `json:"enabled"`
	Size    string   `json:"size"`
	Max     int64    `json:"max"`
	Kind    string   `json:"kind"`
	Level   int      `json:"level"`
	Framing string   `json:"framing"` // "length" (default) | "chunked": sent by a hand-made client that hides the length
}

type reqRec struct {
	Enc     string   `json:"enc"`
	Enabled []string `json:"enabled"`
	N       int64    `json:"n"`
	W       int64    `json:"w"`
	Max     int64    `json:"max"`
}

type obsRec struct {
	Ran    bool   `json:"ran"`
	Status string `json:"status"`
	NRead  int64  `json:"nread"`
	RErr   bool   `json:"rerr"`
	Eq     bool   `json:"eq"`
}

type outLine struct {
	ID    int            `json:"id"`
	Req   reqRec         `json:"req"`
	Obs   obsRec         `json:"obs"`
	Extra map[string]any `json:"extra"`
}

// ---------------------------------------------------------------- probe handler (behind the middleware)

type probeRec struct {
	started bool
	done    chan struct{}
	n       int64
	err     string
	sum     [32]byte
	encHdr  string
	te      string // Transfer-Encoding as seen by the handler
}

type probes struct {
	mu sync.Mutex
	m  map[string]*probeRec
}

func (p *probes) get(id string, create bool) *probeRec {
	p.mu.Lock()
	defer p.mu.Unlock()
	r := p.m[id]
	if r == nil && create {
		r = &probeRec{done: make(chan struct{})}
		p.m[id] = r
	}
	return r
}

func (p *probes) drop(id string) {
	p.mu.Lock()
	delete(p.m, id)
	p.mu.Unlock()
}

func (p *probes) ServeHTTP(w http.ResponseWriter, r *http.Request) {
	id := r.Header.Get("X-Verif-Id")
	rec := p.get(id, true)
	rec.started = true
	rec.encHdr = r.Header.Get("Content-Encoding")
	rec.te = strings.Join(r.TransferEncoding, ",")
	h := sha256.New()
	n, err := io.Copy(h, r.Body)
	rec.n = n
	if err != nil {
		rec.err = err.Error()
	}
	// every other request: the handler closes the body itself when it has read it, as the OTLP receiver's handler does
	// (the middleware closes what it opened as well; requests overlap -- seeded change C16-6 pooled the zstd decoders and
	// returned a decoder to the pool once per Close)
	if len(id) > 0 && (id[len(id)-1]-'0')%2 == 1 {
		_ = r.Body.Close()
	}
	copy(rec.sum[:], h.Sum(nil))
	close(rec.done)
	if err != nil {
		w.WriteHeader(http.StatusBadRequest)
		return
	}
	w.WriteHeader(http.StatusOK)
}

// ---------------------------------------------------------------- capture server (no middleware)

type capRec struct {
	n      int64
	encHdr string
	body   []byte // the bytes on the wire, kept only when asked for (X-Verif-Keep)
}

type capture struct {
	mu sync.Mutex
	m  map[string]capRec
}

func (c *capture) ServeHTTP(w http.ResponseWriter, r *http.Request) {
	var n int64
	var kept []byte
	if r.Header.Get("X-Verif-Keep") != "" {
		kept, _ = io.ReadAll(r.Body)
		n = int64(len(kept))
	} else {
		n, _ = io.Copy(io.Discard, r.Body)
	}
	c.mu.Lock()
	c.m[r.Header.Get("X-Verif-Id")] = capRec{n: n, encHdr: r.Header.Get("Content-Encoding"), body: kept}
	c.mu.Unlock()
	w.WriteHeader(http.StatusOK)
}

// ---------------------------------------------------------------- servers / clients under test

type env struct {
	mu      sync.Mutex
	servers map[string]string // key -> base URL
	closers []func()
	clients map[string]*http.Client
	probe   *probes
	cap     *capture
	capURL  string
}

func enabledKey(en []string) string {
	s := append([]string{}, en...)
	sort.Strings(s)
	return strings.Join(s, ",")
}

func (e *env) server(max int64, enabled []string) (string, error) {
	key := strconv.FormatInt(max, 10) + "|" + enabledKey(enabled)
	e.mu.Lock()
	defer e.mu.Unlock()
	if u, ok := e.servers[key]; ok {
		return u, nil
	}
	algs := []string{} // non-nil: exactly the listed decoders are enabled (nil would mean "default list")
	for _, a := range enabled {
		if a == "identity" {
			algs = append(algs, "")
		} else {
			algs = append(algs, a)
		}
	}
	cfg := confighttp.ServerConfig{
		Endpoint:              "127.0.0.1:0",
		MaxRequestBodySize:    max,
		CompressionAlgorithms: algs,
	}
	if len(enabled) == 1 && enabled[0] == "default" {
		cfg.CompressionAlgorithms = nil
	}
	srv, err := cfg.ToServer(context.Background(), componenttest.NewNopHost(), componenttest.NewNopTelemetrySettings(), e.probe)
	if err != nil {
		return "", err
	}
	ln, err := cfg.ToListener(context.Background())
	if err != nil {
		return "", err
	}
	go func() { _ = srv.Serve(ln) }()
	e.closers = append(e.closers, func() { _ = srv.Close() })
	u := "http://" + ln.Addr().String()
	e.servers[key] = u
	return u, nil
}

// signer: a client authenticator extension of the "request signing" kind.  It sits where confighttp puts the auth round
// tripper (innermost: it sees the request the compression layer produced), obtains a fresh copy of the payload with
// req.GetBody -- the documented way to read a request body without consuming it -- hashes it into a header and sends the
// request on with that copy as its body.  What the compression layer announces (encoding, length) and what GetBody
// returns must be the same bytes (seeded change C16-7 kept the caller's GetBody, i.e. the uncompressed payload).
type signer struct{}

func (signer) Start(context.Context, component.Host) error { return nil }
func (signer) Shutdown(context.Context) error              { return nil }
func (signer) RoundTripper(base http.RoundTripper) (http.RoundTripper, error) {
	return rtFunc(func(req *http.Request) (*http.Response, error) {
		if req.GetBody == nil || req.Body == nil || req.Body == http.NoBody {
			return base.RoundTrip(req)
		}
		b, err := req.GetBody()
		if err != nil {
			return nil, err
		}
		data, err := io.ReadAll(b)
		if err != nil {
			return nil, err
		}
		sum := sha256.Sum256(data)
		r2 := req.Clone(req.Context())
		r2.Header.Set("X-Verif-Payload-Sha256", fmt.Sprintf("%x", sum[:8]))
		_ = req.Body.Close()
		r2.Body = io.NopCloser(bytes.NewReader(data))
		return base.RoundTrip(r2)
	}), nil
}

// earlyPairs: request A carries a large body to a server that answers at once WITHOUT reading it -- net/http then hands the
// response back while its writer may still hold A's body --, and request B follows immediately from the same goroutine
// through the same client.  B is an ordinary request: the handler behind the middleware must read exactly B's bytes (seeded
// change C16-8 recycled the compressed-body buffer of A while the transport still held it).
func (e *env) earlyPairs(seed int64) []map[string]any {
	early := http.Server{Handler: http.HandlerFunc(func(w http.ResponseWriter, _ *http.Request) { w.WriteHeader(http.StatusBadRequest) })}
	ln, err := net.Listen("tcp", "127.0.0.1:0")
	if err != nil {
		return nil
	}
	go func() { _ = early.Serve(ln) }()
	defer early.Close()
	all := []string{"deflate", "gzip", "identity", "lz4", "snappy", "zlib", "zstd"}
	url, err := e.server(64<<20, all)
	if err != nil {
		return nil
	}
	var bad []map[string]any
	k := 0
	for _, enc := range []string{"gzip", "zstd", "snappy", "zlib", "deflate", "lz4"} {
		c, err := e.client(enc, 0, false)
		if err != nil {
			continue
		}
		for rep := 0; rep < 8 && len(bad) < 5; rep++ {
			k++
			bodyA := makeBody("random", 3<<20, seed*7919+int64(k))
			bodyB := makeBody("text", int64(20000+137*k), seed*104729+int64(k))
			want := sha256.Sum256(bodyB)
			_, _ = e.do(c, "http://"+ln.Addr().String(), fmt.Sprintf("ea%d", k), enc, bodyA)
			pid := fmt.Sprintf("eb%d", k)
			code, err := e.do(c, url, pid, enc, bodyB)
			rec := e.probe.get(pid, false)
			what := ""
			switch {
			case err != nil && strings.Contains(err.Error(), "with Body length"):
				what = "the client stack produced an inconsistent request: " + err.Error()
			case err != nil:
				continue // a connection incident: no verdict
			case rec == nil:
				what = fmt.Sprintf("the handler was not reached (status %d)", code)
			default:
				select {
				case <-rec.done:
					if rec.n != int64(len(bodyB)) || rec.sum != want {
						what = fmt.Sprintf("the handler read %d bytes (error %q), the client was given %d bytes; content equal: %v", rec.n, rec.err, len(bodyB), rec.sum == want)
					}
				case <-time.After(30 * time.Second):
					what = "the handler did not finish reading the body within 30 s"
				}
				e.probe.drop(pid)
			}
			if what != "" {
				bad = append(bad, map[string]any{"id": -k, "what": fmt.Sprintf("enc=%s: request B (%d bytes) sent right after a request the server answered without reading its 3 MiB body: %s", enc, len(bodyB), what)})
			}
		}
	}
	return bad
}

// lateSigner: an inner round tripper that answers at once and transfers the request LATER, in a goroutine of its own, keeping
// the body it was handed until then.  http.RoundTripper allows this ("RoundTrip must always close the body ... but may do so
// in a separate goroutine even after RoundTrip returns"); HTTP/2 and early server replies behave like it.  The body must
// stay what the compression layer made of THIS request until the transfer has happened.
type lateSigner struct {
	mu   sync.Mutex
	gate map[string]chan struct{}
	done map[string]chan struct{}
}

func (*lateSigner) Start(context.Context, component.Host) error { return nil }
func (*lateSigner) Shutdown(context.Context) error              { return nil }
func (l *lateSigner) RoundTripper(base http.RoundTripper) (http.RoundTripper, error) {
	return rtFunc(func(req *http.Request) (*http.Response, error) {
		id := req.Header.Get("X-Verif-Late")
		if id == "" {
			return base.RoundTrip(req)
		}
		gate, done := make(chan struct{}), make(chan struct{})
		l.mu.Lock()
		l.gate[id], l.done[id] = gate, done
		l.mu.Unlock()
		r2 := req.Clone(context.Background())
		r2.Body = req.Body
		r2.Header.Del("X-Verif-Late")
		go func() {
			defer close(done)
			<-gate
			resp, err := base.RoundTrip(r2)
			if err == nil {
				_, _ = io.Copy(io.Discard, resp.Body)
				resp.Body.Close()
			}
		}()
		return &http.Response{StatusCode: http.StatusAccepted, Status: "202 Accepted", Proto: "HTTP/1.1", ProtoMajor: 1, ProtoMinor: 1,
			Header: http.Header{}, Body: http.NoBody, Request: req}, nil
	}), nil
}

var lateID = component.MustNewID("late")

type lateHost struct {
	component.Host
	l *lateSigner
}

func (h lateHost) GetExtensions() map[component.ID]component.Component {
	return map[component.ID]component.Component{lateID: h.l}
}

// latePairs: request A goes through the late-transfer round tripper (answered at once, body kept), request B follows through
// the same client and completes, then A's transfer is released.  The handler behind the middleware must read exactly A's
// bytes for A and B's for B.
func (e *env) latePairs(seed int64) []map[string]any {
	all := []string{"deflate", "gzip", "identity", "lz4", "snappy", "zlib", "zstd"}
	url, err := e.server(64<<20, all)
	if err != nil {
		return nil
	}
	var bad []map[string]any
	k := 0
	for _, enc := range []string{"gzip", "zstd", "snappy", "zlib", "deflate", "lz4"} {
		l := &lateSigner{gate: map[string]chan struct{}{}, done: map[string]chan struct{}{}}
		cfg := confighttp.NewDefaultClientConfig()
		cfg.Timeout = 60 * time.Second
		var t configcompression.Type
		if err := t.UnmarshalText([]byte(enc)); err != nil {
			continue
		}
		cfg.Compression = t
		cfg.Auth = &configauth.Authentication{AuthenticatorID: lateID}
		c, err := cfg.ToClient(context.Background(), lateHost{componenttest.NewNopHost(), l}, componenttest.NewNopTelemetrySettings())
		if err != nil {
			continue
		}
		for rep := 0; rep < 6 && len(bad) < 5; rep++ {
			k++
			bodies := [2][]byte{makeBody("text", int64(30000+211*k), seed*7919+int64(k)), makeBody("random", int64(9000+97*k), seed*104729+int64(k))}
			ids := [2]string{fmt.Sprintf("la%d", k), fmt.Sprintf("lb%d", k)}
			// A: answered at once, transferred later
			reqA, _ := http.NewRequest(http.MethodPost, url, bytes.NewReader(bodies[0]))
			reqA.Header.Set("X-Verif-Id", ids[0])
			reqA.Header.Set("X-Verif-Late", ids[0])
			reqA.Header.Set("Content-Type", "application/octet-stream")
			if resp, err := c.Do(reqA); err == nil {
				resp.Body.Close()
			}
			// B: an ordinary request through the same client
			_, errB := e.do(c, url, ids[1], enc, bodies[1])
			l.mu.Lock()
			gate, done := l.gate[ids[0]], l.done[ids[0]]
			l.mu.Unlock()
			if gate == nil {
				continue
			}
			close(gate)
			select {
			case <-done:
			case <-time.After(30 * time.Second):
			}
			if errB != nil && !strings.Contains(errB.Error(), "with Body length") {
				continue // a connection incident: no verdict
			}
			for i, pid := range ids {
				rec := e.probe.get(pid, false)
				what := ""
				if rec == nil {
					what = "the handler was not reached"
				} else {
					select {
					case <-rec.done:
						if rec.n != int64(len(bodies[i])) || rec.sum != sha256.Sum256(bodies[i]) {
							what = fmt.Sprintf("the handler read %d bytes (error %q), the client was given %d bytes", rec.n, rec.err, len(bodies[i]))
						}
					case <-time.After(20 * time.Second):
						what = "the handler did not finish reading the body"
					}
					e.probe.drop(pid)
				}
				if what != "" {
					bad = append(bad, map[string]any{"id": -k, "what": fmt.Sprintf("enc=%s: request %s of a pair (A answered at once and transferred after B, by a late-transfer inner round tripper): %s", enc, []string{"A", "B"}[i], what)})
				}
			}
		}
	}
	return bad
}

// foreignDecoder: two servers in one process, both with the default list of enabled decoders.  The first is built with a
// private decoder (confighttp.WithDecoder); the second is not.  A request announcing the private encoding to the SECOND
// server is a request whose content encoding is not enabled there: a client error, and the handler does not run (seeded
// change C16-9 let all default-configured servers share one decoder table).
func (e *env) foreignDecoder() []map[string]any {
	mk := func(opts ...confighttp.ToServerOption) (string, func()) {
		cfg := confighttp.ServerConfig{Endpoint: "127.0.0.1:0", MaxRequestBodySize: 1 << 20}
		srv, err := cfg.ToServer(context.Background(), componenttest.NewNopHost(), componenttest.NewNopTelemetrySettings(), e.probe, opts...)
		if err != nil {
			return "", func() {}
		}
		ln, err := cfg.ToListener(context.Background())
		if err != nil {
			return "", func() {}
		}
		go func() { _ = srv.Serve(ln) }()
		return "http://" + ln.Addr().String(), func() { _ = srv.Close() }
	}
	u1, c1 := mk(confighttp.WithDecoder("x-verif-private", func(body io.ReadCloser) (io.ReadCloser, error) { return body, nil }))
	defer c1()
	var bad []map[string]any
	for round := 0; round < 2; round++ { // a default server created after, and one that ... is created in the next round too
		u2, c2 := mk()
		if u1 == "" || u2 == "" {
			c2()
			return bad
		}
		for i, u := range []string{u1, u2} {
			pid := fmt.Sprintf("fd%d-%d", round, i)
			req, _ := http.NewRequest(http.MethodPost, u, bytes.NewReader([]byte("twelve bytes")))
			req.Header.Set("X-Verif-Id", pid)
			req.Header.Set("Content-Encoding", "x-verif-private")
			resp, err := http.DefaultClient.Do(req)
			if err != nil {
				continue
			}
			_, _ = io.Copy(io.Discard, resp.Body)
			resp.Body.Close()
			rec := e.probe.get(pid, false)
			ran := rec != nil
			if ran {
				select {
				case <-rec.done:
				case <-time.After(10 * time.Second):
				}
				e.probe.drop(pid)
			}
			if i == 1 && (ran || resp.StatusCode < 400 || resp.StatusCode >= 500) {
				bad = append(bad, map[string]any{"id": -1000 - round, "clause": "NotEnabledRejected", "what": fmt.Sprintf(
					"a server with the default decoders accepted Content-Encoding x-verif-private, which only ANOTHER server of the process was built with (WithDecoder): handler ran=%v status=%d", ran, resp.StatusCode)})
			}
		}
		c2()
	}
	return bad
}

type clientInconsistent struct{ what string }

func (c clientInconsistent) Error() string { return "client produced an inconsistent request: " + c.what }

type rtFunc func(*http.Request) (*http.Response, error)

func (f rtFunc) RoundTrip(r *http.Request) (*http.Response, error) { return f(r) }

var signerID = component.MustNewID("signer")

type signerHost struct{ component.Host }

func (signerHost) GetExtensions() map[component.ID]component.Component {
	return map[component.ID]component.Component{signerID: signer{}}
}

func (e *env) client(enc string, level int, signed bool) (*http.Client, error) {
	key := enc + "|" + strconv.Itoa(level) + "|" + strconv.FormatBool(signed)
	e.mu.Lock()
	defer e.mu.Unlock()
	if c, ok := e.clients[key]; ok {
		return c, nil
	}
	cfg := confighttp.NewDefaultClientConfig()
	cfg.Timeout = 60 * time.Second
	if enc != "none" && enc != "br" {
		var t configcompression.Type
		if err := t.UnmarshalText([]byte(enc)); err != nil {
			return nil, err
		}
		cfg.Compression = t
		cfg.CompressionParams = configcompression.CompressionParams{Level: configcompression.Level(level)}
		if err := cfg.Validate(); err != nil {
			return nil, err
		}
	}
	var host component.Host = componenttest.NewNopHost()
	if signed {
		cfg.Auth = &configauth.Authentication{AuthenticatorID: signerID}
		host = signerHost{host}
	}
	c, err := cfg.ToClient(context.Background(), host, componenttest.NewNopTelemetrySettings())
	if err != nil {
		return nil, err
	}
	e.clients[key] = c
	return c, nil
}

// ---------------------------------------------------------------- concrete bodies

func sizeOf(tag string, max int64) int64 {
	if strings.HasPrefix(tag, "n:") { // explicit length (block-boundary sweep)
		n, err := strconv.ParseInt(tag[2:], 10, 64)
		if err != nil {
			panic(err)
		}
		return n
	}
	switch tag {
	case "empty":
		return 0
	case "small":
		n := max / 3
		if n > 10 {
			n = 10
		}
		if n < 1 {
			n = 1
		}
		return n
	case "limm1":
		return max - 1
	case "lim":
		return max
	case "limp1":
		return max + 1
	case "bomb": // >> limit: 16 x limit, at least 256 KiB, at most 16 MiB (but always at least 2 x limit)
		n := 16 * max
		if n < 256<<10 {
			n = 256 << 10
		}
		if n > 16<<20 {
			n = 16 << 20
		}
		if n < 2*max {
			n = 2 * max
		}
		return n
	}
	panic("size tag " + tag)
}

const words = "the quick brown fox jumps over the lazy dog; resource attributes service.name=checkout span_id trace_id "

func makeBody(kind string, n int64, seed int64) []byte {
	b := make([]byte, n)
	switch kind {
	case "zeros":
	case "text":
		r := rand.New(rand.NewSource(seed))
		for i := int64(0); i < n; {
			off := r.Intn(len(words) - 8)
			i += int64(copy(b[i:], words[off:]))
		}
	case "random":
		r := rand.New(rand.NewSource(seed))
		_, _ = r.Read(b)
	default:
		panic("kind " + kind)
	}
	return b
}

func statusClass(code int) string {
	switch {
	case code >= 200 && code <= 299:
		return "2xx"
	case code >= 400 && code <= 499:
		return "4xx"
	case code >= 500 && code <= 599:
		return "5xx"
	}
	return "other"
}

// hidden hides the length of a body from net/http, so that the request is sent with
// Transfer-Encoding: chunked and the server sees ContentLength = -1.
type hidden struct{ r io.Reader }

func (h hidden) Read(p []byte) (int, error) { return h.r.Read(p) }

// plainClient is a hand-made client: no confighttp round trippers, nothing added to the request.
var plainClient = &http.Client{Timeout: 60 * time.Second, Transport: &http.Transport{DisableCompression: true, MaxIdleConnsPerHost: 16}}

// doChunked sends the given wire bytes (already encoded by the client under test) with unknown length.
func (e *env) doChunked(url, id, encHdr string, wire []byte) (int, error) {
	req, err := http.NewRequest(http.MethodPost, url, io.NopCloser(hidden{bytes.NewReader(wire)}))
	if err != nil {
		return 0, err
	}
	req.ContentLength = -1
	req.Header.Set("X-Verif-Id", id)
	req.Header.Set("Content-Type", "application/octet-stream")
	if encHdr != "" {
		req.Header.Set("Content-Encoding", encHdr)
	}
	resp, err := plainClient.Do(req)
	if err != nil {
		return 0, err
	}
	_, _ = io.Copy(io.Discard, resp.Body)
	resp.Body.Close()
	return resp.StatusCode, nil
}

func (e *env) do(c *http.Client, url, id, enc string, body []byte) (int, error) {
	return e.doKeep(c, url, id, enc, body, false)
}

func (e *env) doKeep(c *http.Client, url, id, enc string, body []byte, keep bool) (int, error) {
	req, err := http.NewRequest(http.MethodPost, url, bytes.NewReader(body))
	if err != nil {
		return 0, err
	}
	if keep {
		req.Header.Set("X-Verif-Keep", "1")
	}
	req.Header.Set("X-Verif-Id", id)
	req.Header.Set("Content-Type", "application/octet-stream")
	if enc == "br" {
		req.Header.Set("Content-Encoding", "br") // a coding the settings do not support, announced by hand
	}
	resp, err := c.Do(req)
	if err != nil {
		return 0, err
	}
	_, _ = io.Copy(io.Discard, resp.Body)
	resp.Body.Close()
	return resp.StatusCode, nil
}

func (e *env) runOne(p planLine, seed int64) (outLine, error) {
	n := sizeOf(p.Size, p.Max)
	body := makeBody(p.Kind, n, seed*1000003+int64(p.ID))
	want := sha256.Sum256(body)
	c, err := e.client(p.Enc, p.Level, p.ID%3 == 1) // every third request goes through a signing authenticator
	if err != nil {
		return outLine{}, fmt.Errorf("client %s/%d: %w", p.Enc, p.Level, err)
	}
	url, err := e.server(p.Max, p.Enabled)
	if err != nil {
		return outLine{}, fmt.Errorf("server: %w", err)
	}
	// 1. wire length, measured with the same client against a server without the middleware
	cid := fmt.Sprintf("c%d", p.ID)
	chunked := p.Framing == "chunked"
	_, err = e.doKeep(c, e.capURL, cid, p.Enc, body, chunked)
	for k := 0; err != nil && !strings.Contains(err.Error(), "with Body length") && k < 3; k++ {
		c.CloseIdleConnections() // a connection incident (another request broke the shared keep-alive connection): once more
		time.Sleep(20 * time.Millisecond)
		_, err = e.doKeep(c, e.capURL, cid, p.Enc, body, chunked)
	}
	if err != nil {
		// net/http refuses to transmit a request whose declared length and body disagree.  Reproduced three times against the
		// plain capture server this is not a network incident: the client built by confighttp produced an inconsistent
		// request from a valid body (reported to the check as such; the request never reaches any handler).
		if strings.Contains(err.Error(), "with Body length") {
			again := 0
			for k := 0; k < 3; k++ {
				if _, e2 := e.doKeep(c, e.capURL, fmt.Sprintf("%s-r%d", cid, k), p.Enc, body, chunked); e2 != nil && strings.Contains(e2.Error(), "with Body length") {
					again++
				}
			}
			if again >= 1 { // (a repeat can succeed when the transport happens to send before it compares the lengths)
				return outLine{}, clientInconsistent{fmt.Sprintf("enc=%s level=%d signed=%v body=%s/%s n=%d: %v", p.Enc, p.Level, p.ID%3 == 1, p.Size, p.Kind, n, err)}
			}
		}
		return outLine{}, fmt.Errorf("capture request failed: %w", err)
	}
	e.cap.mu.Lock()
	cr, ok := e.cap.m[cid]
	delete(e.cap.m, cid)
	e.cap.mu.Unlock()
	if !ok {
		return outLine{}, fmt.Errorf("capture server saw nothing for %s", cid)
	}
	// 2. the request under observation (up to 3 attempts if no response could be obtained)
	var rec *probeRec
	var code int
	var netErr string
	attempts := 0
	hung := 0
	inconsistent := ""
	for attempts < 3 {
		attempts++
		pid := fmt.Sprintf("p%d-%d", p.ID, attempts)
		if chunked {
			code, err = e.doChunked(url, pid, cr.encHdr, cr.body)
		} else {
			code, err = e.do(c, url, pid, p.Enc, body)
		}
		rec = e.probe.get(pid, false)
		if rec != nil {
			select {
			case <-rec.done:
			case <-time.After(30 * time.Second):
				// the handler was entered and never came back from reading the body (blocked inside a decoder, or it
				// panicked there and net/http swallowed the panic): what it "read" is not the body.  Tried again with a
				// fresh request; if every attempt ends like this the observation says so (decided by the monitor).
				hung++
				rec = &probeRec{started: true, err: fmt.Sprintf("handler of %s did not finish reading the body within 30 s", pid)}
				err = errors.New(rec.err)
			}
			e.probe.drop(pid)
		}
		if err == nil {
			netErr = ""
			break
		}
		netErr = err.Error()
		if strings.Contains(netErr, "with Body length") {
			// net/http found the body it was handed shorter / longer than the length the client stack declared: the
			// request the confighttp client produced is inconsistent (e.g. its compressed buffer was changed under it
			// by another request -- seeded change C16-8 pooled that buffer).  Never a network incident.
			inconsistent = fmt.Sprintf("enc=%s level=%d signed=%v body=%s/%s n=%d (attempt %d): %v", p.Enc, p.Level, p.ID%3 == 1, p.Size, p.Kind, n, attempts, err)
		}
		c.CloseIdleConnections()
	}
	if inconsistent != "" {
		return outLine{}, clientInconsistent{inconsistent}
	}
	o := obsRec{Status: "none"}
	if netErr == "" {
		o.Status = statusClass(code)
	}
	framing := p.Framing
	if framing == "" {
		framing = "length"
	}
	extra := map[string]any{"size": p.Size, "kind": p.Kind, "level": p.Level, "code": code, "attempts": attempts,
		"wire_enc": cr.encHdr, "framing": framing}
	if netErr != "" {
		extra["neterr"] = netErr
	}
	if hung > 0 {
		extra["hung_attempts"] = hung
	}
	if rec != nil {
		o.Ran = true
		o.NRead = rec.n
		o.RErr = rec.err != ""
		if rec.n == n {
			o.Eq = rec.sum == want
		} else if rec.n < n {
			o.Eq = rec.sum == sha256.Sum256(body[:rec.n])
		}
		extra["rerr_text"] = rec.err
		extra["handler_enc"] = rec.encHdr
		extra["handler_te"] = rec.te
	}
	return outLine{ID: p.ID, Req: reqRec{Enc: p.Enc, Enabled: p.Enabled, N: n, W: cr.n, Max: p.Max}, Obs: o, Extra: extra}, nil
}

func main() {
	if len(os.Args) < 6 || os.Args[1] != "run" {
		fmt.Fprintln(os.Stderr, "usage: httpingress run <plan.ndjson> <observed.ndjson> <seed> <workers>")
		os.Exit(2)
	}
	seed, _ := strconv.ParseInt(os.Args[4], 10, 64)
	workers, _ := strconv.Atoi(os.Args[5])
	var plan []planLine
	f, err := os.Open(os.Args[2])
	if err != nil {
		panic(err)
	}
	sc := bufio.NewScanner(f)
	sc.Buffer(make([]byte, 1<<20), 1<<20)
	for sc.Scan() {
		if len(bytes.TrimSpace(sc.Bytes())) == 0 {
			continue
		}
		var p planLine
		if err := json.Unmarshal(sc.Bytes(), &p); err != nil {
			panic(err)
		}
		plan = append(plan, p)
	}
	f.Close()

	e := &env{servers: map[string]string{}, clients: map[string]*http.Client{},
		probe: &probes{m: map[string]*probeRec{}}, cap: &capture{m: map[string]capRec{}}}
	cln, err := net.Listen("tcp", "127.0.0.1:0")
	if err != nil {
		panic(err)
	}
	csrv := &http.Server{Handler: e.cap}
	go func() { _ = csrv.Serve(cln) }()
	e.capURL = "http://" + cln.Addr().String()

	out := make([]outLine, len(plan))
	errs := make([]error, len(plan))
	// big bodies one at a time (memory), the rest in parallel
	var small, big []int
	for i, p := range plan {
		if sizeOf(p.Size, p.Max) > 4<<20 {
			big = append(big, i)
		} else {
			small = append(small, i)
		}
	}
	var wg sync.WaitGroup
	ch := make(chan int)
	for w := 0; w < workers; w++ {
		wg.Add(1)
		go func() {
			defer wg.Done()
			for i := range ch {
				out[i], errs[i] = e.runOne(plan[i], seed)
			}
		}()
	}
	for _, i := range small {
		ch <- i
	}
	close(ch)
	wg.Wait()
	for _, i := range big {
		out[i], errs[i] = e.runOne(plan[i], seed)
	}
	var pairs []map[string]any
	if len(plan) > 100 { // not for replays of a single request
		pairs = e.earlyPairs(seed)
		pairs = append(pairs, e.latePairs(seed)...)
		pairs = append(pairs, e.foreignDecoder()...)
	}
	for _, cl := range e.closers {
		cl()
	}
	_ = csrv.Close()

	w, err := os.Create(os.Args[3])
	if err != nil {
		panic(err)
	}
	bw := bufio.NewWriter(w)
	bad := 0
	cf, _ := os.Create(os.Args[3] + ".clientfail")
	defer cf.Close()
	for _, b := range pairs {
		bb, _ := json.Marshal(b)
		cf.Write(append(bb, '\n'))
	}
	for i := range out {
		var ci clientInconsistent
		if errors.As(errs[i], &ci) {
			b, _ := json.Marshal(map[string]any{"id": plan[i].ID, "what": ci.what})
			cf.Write(append(b, '\n'))
			continue
		}
		if errs[i] != nil {
			bad++
			fmt.Fprintf(os.Stderr, "case %d could not be run: %v\n", plan[i].ID, errs[i])
			continue
		}
		b, _ := json.Marshal(out[i])
		bw.Write(b)
		bw.WriteByte('\n')
	}
	bw.Flush()
	w.Close()
	if bad > 0 {
		os.Exit(3)
	}
}
