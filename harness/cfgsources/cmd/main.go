// E09 -- ConfigSources: driver that runs rendered command lines through the REAL otelcol command (cobra command built
// by otelcol.NewCommand: flag set of otelcol/flags.go, updateSettingsUsingFlags, NewCollector / NewConfigProvider,
// confmap.NewResolver + Resolve) with the REAL file / env / yaml (/ http / https) providers, real files below the plan's
// scratch directory and real environment variables, and records the effective raw configuration:
//
//	route "validate"   `<cmd> validate <args>`: otelcol.NewCollector -> Collector.DryRun -> ConfigProvider.Get ->
//	                   Resolver.Resolve; the configuration is observed by a confmap.Converter registered in the settings
//	                   (called by Resolve with the resolved Conf, before the component configuration is unmarshalled):
//	                   Conf.ToStringMap().  Resolution succeeded iff the converter was called (the unmarshalling that
//	                   follows fails for the arbitrary keys of the generated documents, which is irrelevant here).
//	route "print"      `<cmd> print-initial-config <args>` (gate otelcol.printInitialConfig): the YAML written to stdout
//	                   "after all config sources are resolved and merged", parsed back.
//
// usage: main run <plan.json> <out.ndjson>   |   main try <args...>
//
// plan.json: {"dir": scratch dir (created, becomes the working directory), "files": {relative path: content},
// "env": {NAME: value}, "unset": [NAME], "http": {"/path": {"status": n, "body": text}} (served by a local server whose
// address replaces %HTTPHOST% in the arguments), "cases": [{"id": n, "args": [...], "defs": [default URIs], "rep": k}]}.
// out.ndjson: one line per case {"id": n, "obs": [{"route":..., "ok": bool, "raw": JSON of the configuration, "err": text}]}.
package main

import (
	"bufio"
	"context"
	"encoding/json"
	"fmt"
	"io"
	"net/http"
	"net/http/httptest"
	"os"
	"path/filepath"
	"strings"

	yaml "sigs.k8s.io/yaml/goyaml.v3"

	"go.opentelemetry.io/collector/component"
	"go.opentelemetry.io/collector/confmap"
	"go.opentelemetry.io/collector/confmap/provider/envprovider"
	"go.opentelemetry.io/collector/confmap/provider/fileprovider"
	"go.opentelemetry.io/collector/confmap/provider/httpprovider"
	"go.opentelemetry.io/collector/confmap/provider/httpsprovider"
	"go.opentelemetry.io/collector/confmap/provider/yamlprovider"
	"go.opentelemetry.io/collector/featuregate"
	"go.opentelemetry.io/collector/otelcol"
)

type caseIn struct {
	ID   int      `json:"id"`
	Args []string `json:"args"`
	Defs []string `json:"defs"`
	Rep  int      `json:"rep"`
}

type planIn struct {
	Dir   string             `json:"dir"`
	Files map[string]string  `json:"files"`
	Env   map[string]string  `json:"env"`
	Unset []string           `json:"unset"`
	HTTP  map[string]httpDoc `json:"http"`
	Cases []caseIn           `json:"cases"`
}

// httpDoc is what the local HTTP server answers for one path (every other path: 404 "not found").
type httpDoc struct {
	Status int    `json:"status"`
	Body   string `json:"body"`
}

type obs struct {
	Route string          `json:"route"`
	OK    bool            `json:"ok"`
	Raw   json.RawMessage `json:"raw,omitempty"`
	Err   string          `json:"err,omitempty"`
}

type caseOut struct {
	ID  int   `json:"id"`
	Obs []obs `json:"obs"`
}

// recorder is the observation point: a confmap.Converter sees the resolved Conf inside Resolver.Resolve.
type recorder struct {
	calls int
	raw   map[string]any
}

func (r *recorder) Convert(_ context.Context, conf *confmap.Conf) error {
	r.calls++
	r.raw = conf.ToStringMap()
	return nil
}

func settings(rec *recorder, defs []string) otelcol.CollectorSettings {
	return otelcol.CollectorSettings{
		BuildInfo: component.NewDefaultBuildInfo(),
		Factories: func() (otelcol.Factories, error) { return otelcol.Factories{}, nil },
		ConfigProviderSettings: otelcol.ConfigProviderSettings{
			ResolverSettings: confmap.ResolverSettings{
				URIs: append([]string(nil), defs...),
				ProviderFactories: []confmap.ProviderFactory{
					fileprovider.NewFactory(), envprovider.NewFactory(), yamlprovider.NewFactory(),
					httpprovider.NewFactory(), httpsprovider.NewFactory(),
				},
				ConverterFactories: []confmap.ConverterFactory{
					confmap.NewConverterFactory(func(confmap.ConverterSettings) confmap.Converter { return rec }),
				},
			},
		},
	}
}

func execute(sub string, args []string, defs []string) (*recorder, error) {
	rec := &recorder{}
	cmd := otelcol.NewCommand(settings(rec, defs))
	cmd.SetArgs(append([]string{sub}, args...))
	cmd.SilenceErrors = true
	cmd.SilenceUsage = true
	cmd.SetOut(io.Discard)
	cmd.SetErr(io.Discard)
	err := cmd.Execute()
	return rec, err
}

func errText(err error) string {
	if err == nil {
		return ""
	}
	s := err.Error()
	if len(s) > 300 {
		s = s[:300]
	}
	return s
}

// norm makes the value encodable without losing its kind: an empty list is a list (ToStringMap returns a nil []any for
// it, which encoding/json would write as null), maps keyed by any become maps keyed by string.
func norm(v any) any {
	switch x := v.(type) {
	case map[string]any:
		m := make(map[string]any, len(x))
		for k, e := range x {
			m[k] = norm(e)
		}
		return m
	case map[any]any:
		m := make(map[string]any, len(x))
		for k, e := range x {
			m[fmt.Sprint(k)] = norm(e)
		}
		return m
	case []any:
		l := make([]any, 0, len(x))
		for _, e := range x {
			l = append(l, norm(e))
		}
		return l
	}
	return v
}

func jsonOf(v any) (json.RawMessage, error) {
	b, err := json.Marshal(norm(v))
	return json.RawMessage(b), err
}

func runValidate(c caseIn) obs {
	rec, err := execute("validate", c.Args, c.Defs)
	o := obs{Route: "validate", OK: rec.calls > 0, Err: errText(err)}
	if rec.calls > 0 {
		raw, jerr := jsonOf(rec.raw)
		if jerr != nil {
			o.Err = "HARNESS: cannot encode the configuration: " + jerr.Error()
			o.Route = "harness"
		}
		o.Raw = raw
		if rec.calls != 1 {
			o.Err = fmt.Sprintf("HARNESS: converter called %d times", rec.calls)
			o.Route = "harness"
		}
	}
	return o
}

var capture *os.File

func runPrint(c caseIn) obs {
	if err := capture.Truncate(0); err != nil {
		return obs{Route: "harness", Err: err.Error()}
	}
	if _, err := capture.Seek(0, 0); err != nil {
		return obs{Route: "harness", Err: err.Error()}
	}
	orig := os.Stdout
	os.Stdout = capture
	_, err := execute("print-initial-config", c.Args, c.Defs)
	os.Stdout = orig
	o := obs{Route: "print", OK: err == nil, Err: errText(err)}
	if err != nil {
		return o
	}
	if _, serr := capture.Seek(0, 0); serr != nil {
		return obs{Route: "harness", Err: serr.Error()}
	}
	text, rerr := io.ReadAll(capture)
	if rerr != nil {
		return obs{Route: "harness", Err: rerr.Error()}
	}
	var v any
	if yerr := yaml.Unmarshal(text, &v); yerr != nil {
		return obs{Route: "harness", Err: "printed configuration is not YAML: " + yerr.Error()}
	}
	if v == nil {
		v = map[string]any{}
	}
	raw, jerr := jsonOf(v)
	if jerr != nil {
		return obs{Route: "harness", Err: "cannot encode the printed configuration: " + jerr.Error()}
	}
	o.Raw = raw
	return o
}

func fatal(f string, a ...any) {
	fmt.Fprintf(os.Stderr, "HARNESS: "+f+"\n", a...)
	os.Exit(3)
}

func main() {
	if len(os.Args) < 2 {
		fatal("usage: run <plan.json> <out.ndjson> | try <args...>")
	}
	if err := featuregate.GlobalRegistry().Set("otelcol.printInitialConfig", true); err != nil {
		fatal("cannot enable the print-initial-config gate: %v", err)
	}
	var err error
	capture, err = os.CreateTemp("", "e09-stdout-*")
	if err != nil {
		fatal("%v", err)
	}
	defer os.Remove(capture.Name())
	switch os.Args[1] {
	case "try":
		c := caseIn{Args: os.Args[2:]}
		for _, o := range []obs{runValidate(c), runPrint(c)} {
			fmt.Printf("%s ok=%v raw=%s\n   err=%s\n", o.Route, o.OK, o.Raw, o.Err)
		}
	case "run":
		if len(os.Args) != 4 {
			fatal("usage: run <plan.json> <out.ndjson>")
		}
		b, err := os.ReadFile(os.Args[2])
		if err != nil {
			fatal("%v", err)
		}
		var p planIn
		if err = json.Unmarshal(b, &p); err != nil {
			fatal("plan: %v", err)
		}
		outf, err := os.Create(os.Args[3])
		if err != nil {
			fatal("%v", err)
		}
		w := bufio.NewWriterSize(outf, 1<<20)
		if err = os.MkdirAll(p.Dir, 0o755); err != nil {
			fatal("%v", err)
		}
		if err = os.Chdir(p.Dir); err != nil {
			fatal("%v", err)
		}
		for name, content := range p.Files {
			if err = os.MkdirAll(filepath.Dir(name), 0o755); err != nil {
				fatal("%v", err)
			}
			if err = os.WriteFile(name, []byte(content), 0o644); err != nil {
				fatal("%v", err)
			}
		}
		for _, n := range p.Unset {
			os.Unsetenv(n)
		}
		for n, v := range p.Env {
			if err = os.Setenv(n, v); err != nil {
				fatal("setenv %s: %v", n, err)
			}
		}
		if len(p.HTTP) > 0 {
			srv := httptest.NewServer(http.HandlerFunc(func(rw http.ResponseWriter, r *http.Request) {
				d, ok := p.HTTP[r.URL.Path]
				if !ok {
					http.Error(rw, "not found", http.StatusNotFound)
					return
				}
				rw.WriteHeader(d.Status)
				_, _ = io.WriteString(rw, d.Body)
			}))
			defer srv.Close()
			host := srv.Listener.Addr().String()
			for i := range p.Cases {
				for j, a := range p.Cases[i].Args {
					p.Cases[i].Args[j] = strings.ReplaceAll(a, "%HTTPHOST%", host)
				}
				for j, a := range p.Cases[i].Defs {
					p.Cases[i].Defs[j] = strings.ReplaceAll(a, "%HTTPHOST%", host)
				}
			}
		}
		enc := json.NewEncoder(w)
		for _, c := range p.Cases {
			co := caseOut{ID: c.ID}
			n := c.Rep
			if n < 1 {
				n = 1
			}
			for k := 0; k < n; k++ {
				co.Obs = append(co.Obs, runValidate(c))
			}
			co.Obs = append(co.Obs, runPrint(c))
			if err = enc.Encode(co); err != nil {
				fatal("%v", err)
			}
		}
		if err = w.Flush(); err != nil {
			fatal("%v", err)
		}
		if err = outf.Close(); err != nil {
			fatal("%v", err)
		}
		os.Remove(capture.Name())
	default:
		fatal("unknown mode %q", os.Args[1])
	}
}
