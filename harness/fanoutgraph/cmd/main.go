// C06 driver, graph level: builds the pipeline graph of a TLC-generated configuration with the real
// service/internal/graph.Build (which wires fanoutconsumer, capabilityconsumer and the connector
// routers), sends one payload through the chosen receiver and records the content timeline of every
// leaf exporter for the TLC monitor (specs/Fanout/FanoutTrace.tla).
//
//	fanoutgraph run <runs.ndjson> <observed.ndjson>
//
// A run line (from FanoutGraphGen + signal / payload variant chosen by checks/C06.py):
//
//	{"id":..,"sig":..,"pv":..,"np":P,"procs":[[bool..]..],"exps":[[bool..]..],"conn":[[q..]..],
//	 "connMut":[bool..],"rcv":[p..],"sender":0|p,"roIn":b,"undecl":b,
//	 "n":N,"leaves":[{"p":..,"i":..,"mut":b,"path":[marker..]}..]}
//
// Components come from test factories whose Capabilities are taken from the configuration:
//
//	receivers  vrecv/shared (pipelines rcv) and vrecv/probe<p> (pipeline p only): keep `next`
//	processors vproc/p<p>i<i>: if declared mutating write marker 10*(50+3p+i)+1, then pass the SAME payload on
//	exporters  vexp/p<p>e<i>: recording leaf consumers (keep the handle, mutate if declared)
//	connectors vconn/c<p>: exporter in p, receiver in conn[p]; if declared mutating write marker
//	           10*(80+p)+1, then forward the SAME payload to the router's default consumer (all pipelines)
//
// adv in the reset record = Capabilities().MutatesData of the consumer graph.Build handed to the
// sending receiver; for a probe receiver that is exactly what pipeline p advertises.
package main

import (
	"bufio"
	"context"
	"encoding/json"
	"fmt"
	"os"

	"go.opentelemetry.io/collector/component"
	"go.opentelemetry.io/collector/component/componenttest"
	"go.opentelemetry.io/collector/connector"
	"go.opentelemetry.io/collector/connector/xconnector"
	"go.opentelemetry.io/collector/consumer"
	"go.opentelemetry.io/collector/consumer/xconsumer"
	"go.opentelemetry.io/collector/exporter"
	"go.opentelemetry.io/collector/exporter/xexporter"
	"go.opentelemetry.io/collector/pdata/plog"
	"go.opentelemetry.io/collector/pdata/pmetric"
	"go.opentelemetry.io/collector/pdata/pprofile"
	"go.opentelemetry.io/collector/pdata/ptrace"
	"go.opentelemetry.io/collector/pipeline"
	"go.opentelemetry.io/collector/pipeline/xpipeline"
	"go.opentelemetry.io/collector/processor"
	"go.opentelemetry.io/collector/processor/xprocessor"
	"go.opentelemetry.io/collector/receiver"
	"go.opentelemetry.io/collector/receiver/xreceiver"
	"go.opentelemetry.io/collector/service/internal/builders"
	"go.opentelemetry.io/collector/service/internal/graph"
	"go.opentelemetry.io/collector/service/pipelines"
)

type leaf struct {
	P    int   `json:"p"`
	I    int   `json:"i"`
	Mut  bool  `json:"mut"`
	Path []int `json:"path"`
}

type grun struct {
	ID      int      `json:"id"`
	Sig     string   `json:"sig"`
	PV      int      `json:"pv"`
	NP      int      `json:"np"`
	Procs   [][]bool `json:"procs"`
	Exps    [][]bool `json:"exps"`
	Conn    [][]int  `json:"conn"`
	ConnMut []bool   `json:"connMut"`
	Rcv     []int    `json:"rcv"`
	Sender  int      `json:"sender"`
	RoIn    bool     `json:"roIn"`
	Undecl  bool     `json:"undecl"`
	N       int      `json:"n"`
	Leaves  []leaf   `json:"leaves"`
}

var (
	recvType = component.MustNewType("vrecv")
	procType = component.MustNewType("vproc")
	expType  = component.MustNewType("vexp")
	connType = component.MustNewType("vconn")
)

type capser interface {
	Capabilities() consumer.Capabilities
}

// compCfg is the configuration of one test component.
type compCfg struct {
	Mut    bool
	Marker int   // processors and connectors
	Leaf   int   // exporters: consumer number of the leaf in this run (0 = not reached in this run)
	Feeds  []int // connectors: the pipelines it feeds
}

// world is the state of one run; the per-signal factories call back into it.
type world[T any, C capser] struct {
	*recorder[T]
	run     grun
	consume func(C, context.Context, T) error
	nexts   map[string]C // receiver name -> consumer handed by graph.Build
	order   []int
}

func (w *world[T, C]) receiverCreated(id component.ID, next C) { w.nexts[id.Name()] = next }

// stage is a processor or a connector: act on the payload if declared mutating, pass the same payload on.
// "decl" in the record = the stage may mutate what it is given: it declared MutatesData itself or (connector) it
// hands the payload to a pipeline that advertises mutation (as observed at that pipeline's probe receiver).
func (w *world[T, C]) stage(cfg *compCfg, next C) func(context.Context, T) error {
	return func(ctx context.Context, d T) error {
		panicked := false
		if cfg.Mut {
			panicked = w.tryMutate(d, cfg.Marker, 1)
		}
		decl := cfg.Mut
		for _, q := range cfg.Feeds {
			if pn, ok := w.nexts[fmt.Sprintf("probe%d", q)]; ok && pn.Capabilities().MutatesData {
				decl = true
			}
		}
		o := w.objID(d)
		w.emit(event{Ev: "proc", Decl: &decl, O: &o, P: &panicked})
		return w.consume(next, ctx, d)
	}
}

func (w *world[T, C]) leaf(cfg *compCfg) func(context.Context, T) error {
	return func(_ context.Context, d T) error {
		c := cfg.Leaf
		if c == 0 {
			panic("payload reached an exporter that is not downstream of the sender")
		}
		w.order = append(w.order, c)
		w.deliver(c, d)
		if cfg.Mut {
			w.mutateVia(c)
		}
		return nil
	}
}

// plumbing is the per-signal part: factories that create components around the world's callbacks.
type plumbing[T any, C capser] struct {
	base      baseOps[T]
	signal    pipeline.Signal
	consume   func(C, context.Context, T) error
	factories func(w *world[T, C]) (receiver.Factory, processor.Factory, exporter.Factory, connector.Factory)
}

type comp struct {
	component.StartFunc
	component.ShutdownFunc
}

func caps(m bool) consumer.Option {
	return consumer.WithCapabilities(consumer.Capabilities{MutatesData: m})
}

func must[T any](v T, err error) T {
	if err != nil {
		panic(err)
	}
	return v
}

func defCfg() component.Config { return &compCfg{} }

const stab = component.StabilityLevelDevelopment

// ---------------------------------------------------------------------------------- per signal

type (
	logsComp struct {
		comp
		consumer.Logs
	}
	metricsComp struct {
		comp
		consumer.Metrics
	}
	tracesComp struct {
		comp
		consumer.Traces
	}
	profilesComp struct {
		comp
		xconsumer.Profiles
	}
)

var logsPlumbing = plumbing[plog.Logs, consumer.Logs]{
	base: logsBase, signal: pipeline.SignalLogs,
	consume: func(c consumer.Logs, ctx context.Context, d plog.Logs) error { return c.ConsumeLogs(ctx, d) },
	factories: func(w *world[plog.Logs, consumer.Logs]) (receiver.Factory, processor.Factory, exporter.Factory, connector.Factory) {
		return xreceiver.NewFactory(recvType, defCfg, xreceiver.WithLogs(
				func(_ context.Context, set receiver.Settings, _ component.Config, next consumer.Logs) (receiver.Logs, error) {
					w.receiverCreated(set.ID, next)
					return comp{}, nil
				}, stab)),
			xprocessor.NewFactory(procType, defCfg, xprocessor.WithLogs(
				func(_ context.Context, _ processor.Settings, cfg component.Config, next consumer.Logs) (processor.Logs, error) {
					c := cfg.(*compCfg)
					return logsComp{Logs: must(consumer.NewLogs(w.stage(c, next), caps(c.Mut)))}, nil
				}, stab)),
			xexporter.NewFactory(expType, defCfg, xexporter.WithLogs(
				func(_ context.Context, _ exporter.Settings, cfg component.Config) (exporter.Logs, error) {
					c := cfg.(*compCfg)
					return logsComp{Logs: must(consumer.NewLogs(w.leaf(c), caps(c.Mut)))}, nil
				}, stab)),
			xconnector.NewFactory(connType, defCfg, xconnector.WithLogsToLogs(
				func(_ context.Context, _ connector.Settings, cfg component.Config, next consumer.Logs) (connector.Logs, error) {
					c := cfg.(*compCfg)
					return logsComp{Logs: must(consumer.NewLogs(w.stage(c, next), caps(c.Mut)))}, nil
				}, stab))
	},
}

var metricsPlumbing = plumbing[pmetric.Metrics, consumer.Metrics]{
	base: metricsBase, signal: pipeline.SignalMetrics,
	consume: func(c consumer.Metrics, ctx context.Context, d pmetric.Metrics) error {
		return c.ConsumeMetrics(ctx, d)
	},
	factories: func(w *world[pmetric.Metrics, consumer.Metrics]) (receiver.Factory, processor.Factory, exporter.Factory, connector.Factory) {
		return xreceiver.NewFactory(recvType, defCfg, xreceiver.WithMetrics(
				func(_ context.Context, set receiver.Settings, _ component.Config, next consumer.Metrics) (receiver.Metrics, error) {
					w.receiverCreated(set.ID, next)
					return comp{}, nil
				}, stab)),
			xprocessor.NewFactory(procType, defCfg, xprocessor.WithMetrics(
				func(_ context.Context, _ processor.Settings, cfg component.Config, next consumer.Metrics) (processor.Metrics, error) {
					c := cfg.(*compCfg)
					return metricsComp{Metrics: must(consumer.NewMetrics(w.stage(c, next), caps(c.Mut)))}, nil
				}, stab)),
			xexporter.NewFactory(expType, defCfg, xexporter.WithMetrics(
				func(_ context.Context, _ exporter.Settings, cfg component.Config) (exporter.Metrics, error) {
					c := cfg.(*compCfg)
					return metricsComp{Metrics: must(consumer.NewMetrics(w.leaf(c), caps(c.Mut)))}, nil
				}, stab)),
			xconnector.NewFactory(connType, defCfg, xconnector.WithMetricsToMetrics(
				func(_ context.Context, _ connector.Settings, cfg component.Config, next consumer.Metrics) (connector.Metrics, error) {
					c := cfg.(*compCfg)
					return metricsComp{Metrics: must(consumer.NewMetrics(w.stage(c, next), caps(c.Mut)))}, nil
				}, stab))
	},
}

var tracesPlumbing = plumbing[ptrace.Traces, consumer.Traces]{
	base: tracesBase, signal: pipeline.SignalTraces,
	consume: func(c consumer.Traces, ctx context.Context, d ptrace.Traces) error { return c.ConsumeTraces(ctx, d) },
	factories: func(w *world[ptrace.Traces, consumer.Traces]) (receiver.Factory, processor.Factory, exporter.Factory, connector.Factory) {
		return xreceiver.NewFactory(recvType, defCfg, xreceiver.WithTraces(
				func(_ context.Context, set receiver.Settings, _ component.Config, next consumer.Traces) (receiver.Traces, error) {
					w.receiverCreated(set.ID, next)
					return comp{}, nil
				}, stab)),
			xprocessor.NewFactory(procType, defCfg, xprocessor.WithTraces(
				func(_ context.Context, _ processor.Settings, cfg component.Config, next consumer.Traces) (processor.Traces, error) {
					c := cfg.(*compCfg)
					return tracesComp{Traces: must(consumer.NewTraces(w.stage(c, next), caps(c.Mut)))}, nil
				}, stab)),
			xexporter.NewFactory(expType, defCfg, xexporter.WithTraces(
				func(_ context.Context, _ exporter.Settings, cfg component.Config) (exporter.Traces, error) {
					c := cfg.(*compCfg)
					return tracesComp{Traces: must(consumer.NewTraces(w.leaf(c), caps(c.Mut)))}, nil
				}, stab)),
			xconnector.NewFactory(connType, defCfg, xconnector.WithTracesToTraces(
				func(_ context.Context, _ connector.Settings, cfg component.Config, next consumer.Traces) (connector.Traces, error) {
					c := cfg.(*compCfg)
					return tracesComp{Traces: must(consumer.NewTraces(w.stage(c, next), caps(c.Mut)))}, nil
				}, stab))
	},
}

var profilesPlumbing = plumbing[pprofile.Profiles, xconsumer.Profiles]{
	base: profilesBase, signal: xpipeline.SignalProfiles,
	consume: func(c xconsumer.Profiles, ctx context.Context, d pprofile.Profiles) error {
		return c.ConsumeProfiles(ctx, d)
	},
	factories: func(w *world[pprofile.Profiles, xconsumer.Profiles]) (receiver.Factory, processor.Factory, exporter.Factory, connector.Factory) {
		return xreceiver.NewFactory(recvType, defCfg, xreceiver.WithProfiles(
				func(_ context.Context, set receiver.Settings, _ component.Config, next xconsumer.Profiles) (xreceiver.Profiles, error) {
					w.receiverCreated(set.ID, next)
					return comp{}, nil
				}, stab)),
			xprocessor.NewFactory(procType, defCfg, xprocessor.WithProfiles(
				func(_ context.Context, _ processor.Settings, cfg component.Config, next xconsumer.Profiles) (xprocessor.Profiles, error) {
					c := cfg.(*compCfg)
					return profilesComp{Profiles: must(xconsumer.NewProfiles(w.stage(c, next), caps(c.Mut)))}, nil
				}, stab)),
			xexporter.NewFactory(expType, defCfg, xexporter.WithProfiles(
				func(_ context.Context, _ exporter.Settings, cfg component.Config) (xexporter.Profiles, error) {
					c := cfg.(*compCfg)
					return profilesComp{Profiles: must(xconsumer.NewProfiles(w.leaf(c), caps(c.Mut)))}, nil
				}, stab)),
			xconnector.NewFactory(connType, defCfg, xconnector.WithProfilesToProfiles(
				func(_ context.Context, _ connector.Settings, cfg component.Config, next xconsumer.Profiles) (xconnector.Profiles, error) {
					c := cfg.(*compCfg)
					return profilesComp{Profiles: must(xconsumer.NewProfiles(w.stage(c, next), caps(c.Mut)))}, nil
				}, stab))
	},
}

// ---------------------------------------------------------------------------------- one run

func procMarker(p, i int) int { return 10*(50+3*p+i) + 1 }
func connMarker(p int) int    { return 10*(80+p) + 1 }

func runGraph[T any, C capser](pl plumbing[T, C], r grun, out *json.Encoder) {
	src := pl.base.build(r.PV)
	if r.RoIn {
		pl.base.markRO(src)
	}
	w := &world[T, C]{recorder: newRecorder(pl.base, r.N, out, src), run: r, consume: pl.consume, nexts: map[string]C{}}

	// ---- configuration -> builders + pipelines.Config
	rcfg := map[component.ID]component.Config{}
	pcfg := map[component.ID]component.Config{}
	ecfg := map[component.ID]component.Config{}
	ccfg := map[component.ID]component.Config{}
	pipes := pipelines.Config{}
	leafNo := map[[2]int]int{}
	for c, l := range r.Leaves {
		leafNo[[2]int{l.P, l.I}] = c + 1
	}
	shared := component.NewIDWithName(recvType, "shared")
	rcfg[shared] = &compCfg{}
	inRcv := map[int]bool{}
	for _, p := range r.Rcv {
		inRcv[p] = true
	}
	connID := func(p int) component.ID { return component.NewIDWithName(connType, fmt.Sprintf("c%d", p)) }
	for p := 1; p <= r.NP; p++ {
		pc := &pipelines.PipelineConfig{}
		probe := component.NewIDWithName(recvType, fmt.Sprintf("probe%d", p))
		rcfg[probe] = &compCfg{}
		pc.Receivers = append(pc.Receivers, probe)
		if inRcv[p] {
			pc.Receivers = append(pc.Receivers, shared)
		}
		for q := 1; q < p; q++ { // connectors of earlier pipelines that feed p
			for _, t := range r.Conn[q-1] {
				if t == p {
					pc.Receivers = append(pc.Receivers, connID(q))
				}
			}
		}
		for i, m := range r.Procs[p-1] {
			id := component.NewIDWithName(procType, fmt.Sprintf("p%di%d", p, i+1))
			pcfg[id] = &compCfg{Mut: m, Marker: procMarker(p, i+1)}
			pc.Processors = append(pc.Processors, id)
		}
		for i, m := range r.Exps[p-1] {
			id := component.NewIDWithName(expType, fmt.Sprintf("p%de%d", p, i+1))
			ecfg[id] = &compCfg{Mut: m, Leaf: leafNo[[2]int{p, i + 1}]}
			pc.Exporters = append(pc.Exporters, id)
		}
		if len(r.Conn[p-1]) > 0 {
			ccfg[connID(p)] = &compCfg{Mut: r.ConnMut[p-1], Marker: connMarker(p), Feeds: r.Conn[p-1]}
			pc.Exporters = append(pc.Exporters, connID(p))
		}
		pipes[pipeline.NewIDWithName(pl.signal, fmt.Sprintf("p%d", p))] = pc
	}
	rf, pf, ef, cf := pl.factories(w)
	set := graph.Settings{
		Telemetry:        componenttest.NewNopTelemetrySettings(),
		BuildInfo:        component.NewDefaultBuildInfo(),
		ReceiverBuilder:  builders.NewReceiver(rcfg, map[component.Type]receiver.Factory{recvType: rf}),
		ProcessorBuilder: builders.NewProcessor(pcfg, map[component.Type]processor.Factory{procType: pf}),
		ExporterBuilder:  builders.NewExporter(ecfg, map[component.Type]exporter.Factory{expType: ef}),
		ConnectorBuilder: builders.NewConnector(ccfg, map[component.Type]connector.Factory{connType: cf}),
		PipelineConfigs:  pipes,
	}
	if _, err := graph.Build(context.Background(), set); err != nil {
		panic(fmt.Sprintf("run %d: graph.Build: %v", r.ID, err))
	}
	name := "shared"
	if r.Sender > 0 {
		name = fmt.Sprintf("probe%d", r.Sender)
	}
	next, ok := w.nexts[name]
	if !ok {
		panic(fmt.Sprintf("run %d: receiver %s was not created", r.ID, name))
	}

	// ---- what every leaf is to receive: the payload as transformed by the declared-mutating stages on its path
	mut := make([]bool, r.N)
	fail := make([]bool, r.N)
	sent := make([]string, r.N)
	pre := make([][]int, r.N)
	for c, l := range r.Leaves {
		mut[c] = l.Mut
		x := pl.base.build(r.PV)
		pre[c] = []int{}
		for _, m := range l.Path {
			pl.base.mutate(x, markerString(m), 1)
			pre[c] = append(pre[c], m)
		}
		sent[c] = digest(pl.base.bytes(x))
	}
	adv := next.Capabilities().MutatesData
	via := "graph"
	w.emit(event{Ev: "reset", ID: &r.ID, Sig: r.Sig, Via: via, N: &r.N, Mut: mut, Fail: fail, RoIn: &r.RoIn,
		Adv: &adv, Sent: sent, Pre: pre})

	var err error
	crash := ""
	func() {
		defer func() {
			if rec := recover(); rec != nil {
				crash = fmt.Sprint(rec)
			}
		}()
		err = pl.consume(next, context.Background(), src)
	}()
	isnil := err == nil && crash == ""
	has := []int{}
	w.emit(event{Ev: "return", IsNil: &isnil, Has: &has, Crash: crash, Order: w.order})
	// ---- after the call returned: every declared-mutating leaf mutates once more through the handle it kept,
	// and (undecl) every non-declaring leaf attempts an undeclared mutation
	for c := 1; c <= r.N; c++ {
		if w.handles[c] == nil {
			continue
		}
		if r.Leaves[c-1].Mut {
			w.nmut[c] = 1 // the late mutation is number 2 even if the synchronous one was skipped
			w.mutateVia(c)
		} else if r.Undecl {
			w.mutateVia(c)
		}
	}
}

func main() {
	if len(os.Args) != 4 || os.Args[1] != "run" {
		fmt.Fprintln(os.Stderr, "usage: fanoutgraph run <runs.ndjson> <observed.ndjson>")
		os.Exit(64)
	}
	in, err := os.Open(os.Args[2])
	if err != nil {
		panic(err)
	}
	defer in.Close()
	outf, err := os.Create(os.Args[3])
	if err != nil {
		panic(err)
	}
	wr := bufio.NewWriterSize(outf, 1<<20)
	enc := json.NewEncoder(wr)
	rd := bufio.NewScanner(in)
	rd.Buffer(make([]byte, 1<<20), 1<<24)
	runs := 0
	for rd.Scan() {
		if len(rd.Bytes()) == 0 {
			continue
		}
		var r grun
		if err := json.Unmarshal(rd.Bytes(), &r); err != nil {
			panic(err)
		}
		if r.NP < 1 || len(r.Procs) != r.NP || len(r.Exps) != r.NP || len(r.Conn) != r.NP || len(r.ConnMut) != r.NP ||
			len(r.Leaves) != r.N || r.N < 1 {
			panic(fmt.Sprintf("malformed run %d", r.ID))
		}
		switch r.Sig {
		case "logs":
			runGraph(logsPlumbing, r, enc)
		case "metrics":
			runGraph(metricsPlumbing, r, enc)
		case "traces":
			runGraph(tracesPlumbing, r, enc)
		case "profiles":
			runGraph(profilesPlumbing, r, enc)
		default:
			panic("unknown signal " + r.Sig)
		}
		runs++
	}
	if err := rd.Err(); err != nil {
		panic(err)
	}
	if err := wr.Flush(); err != nil {
		panic(err)
	}
	if err := outf.Close(); err != nil {
		panic(err)
	}
	fmt.Printf("{\"runs\":%d}\n", runs)
}
