// Conformance driver for the extra specification E04 (specs/ServiceNotify): what a REAL service (service.New /
// Start / Shutdown, public API) tells its extensions, and when.
//
//	svcnotify run <scripts.ndjson> <events.ndjson>
//
// script: {"id":..,"exts":[..],"pw":[..],"cw":[..],"sw":[..],"deps":{"x2":["x1"]},"conf":bool,"fail":[["start","x1"],["cstart","r1"],..]}
// The pipeline is fixed: receivers r1, r2 -> processor p1 -> exporter e1 (logs).  Every call the service makes on an
// extension or pipeline component is logged under one mutex (see specs/ServiceNotify/ServiceNotifyTrace.tla for the
// event vocabulary).  The lifetime is Start, then Shutdown whatever Start returned (what otelcol does).
package main

import (
	"bufio"
	"context"
	"encoding/json"
	"errors"
	"fmt"
	"os"
	"reflect"
	"sync"
	"time"

	"go.uber.org/zap/zapcore"

	"go.opentelemetry.io/collector/component"
	"go.opentelemetry.io/collector/component/componentstatus"
	"go.opentelemetry.io/collector/config/configtelemetry"
	"go.opentelemetry.io/collector/confmap"
	"go.opentelemetry.io/collector/consumer"
	"go.opentelemetry.io/collector/exporter"
	"go.opentelemetry.io/collector/extension"
	"go.opentelemetry.io/collector/pdata/plog"
	"go.opentelemetry.io/collector/pipeline"
	"go.opentelemetry.io/collector/processor"
	"go.opentelemetry.io/collector/receiver"
	"go.opentelemetry.io/collector/service"
	"go.opentelemetry.io/collector/service/extensions"
	"go.opentelemetry.io/collector/service/pipelines"
	"go.opentelemetry.io/collector/service/telemetry"
)

type Script struct {
	ID   string              `json:"id"`
	Exts []string            `json:"exts"`
	PW   []string            `json:"pw"`
	CW   []string            `json:"cw"`
	SW   []string            `json:"sw"`
	Deps map[string][]string `json:"deps"`
	Conf bool                `json:"conf"`
	Fail [][]string          `json:"fail"`
}

type Ev struct {
	Ev    string   `json:"ev"`
	ID    string   `json:"id"`
	N     string   `json:"n"`
	OK    bool     `json:"ok"`
	Equal bool     `json:"equal"`
	Own   bool     `json:"own"`
	Conf  bool     `json:"conf"`
	Exts  []string `json:"exts"`
	Rcvs  []string `json:"rcvs"`
	Comps []string `json:"comps"`
	PW    []string `json:"pw"`
	CW    []string `json:"cw"`
	SW    []string `json:"sw"`
	Text  string   `json:"text"`
}

type world struct {
	mu    sync.Mutex
	evs   []Ev
	sc    Script
	fail  map[string]bool
	confs map[string]*confmap.Conf // what each ConfigWatcher was given
	orig  map[string]any
}

func nn(s []string) []string {
	if s == nil {
		return []string{}
	}
	return s
}

func (w *world) log(e Ev) {
	e.Exts, e.Rcvs, e.Comps, e.PW, e.CW, e.SW = nn(e.Exts), nn(e.Rcvs), nn(e.Comps), nn(e.PW), nn(e.CW), nn(e.SW)
	w.mu.Lock()
	w.evs = append(w.evs, e)
	w.mu.Unlock()
}

func (w *world) failing(kind, name string) error {
	if w.fail[kind+":"+name] {
		return fmt.Errorf("scripted failure of %s %s", kind, name)
	}
	return nil
}

// ---- extensions: one base + one mixin per capability; the eight combinations are distinct Go types
type base struct {
	w    *world
	name string
	deps []component.ID
}

func (b *base) Start(context.Context, component.Host) error {
	err := b.w.failing("start", b.name)
	b.w.log(Ev{Ev: "xstart_end", N: b.name, OK: err == nil})
	return err
}

func (b *base) Shutdown(context.Context) error {
	b.w.log(Ev{Ev: "xstop", N: b.name})
	err := b.w.failing("shutdown", b.name)
	b.w.log(Ev{Ev: "xstop_end", N: b.name, OK: err == nil})
	return err
}
func (b *base) Dependencies() []component.ID { return b.deps }

type mixPW struct{ b *base }

func (m mixPW) Ready() error {
	m.b.w.log(Ev{Ev: "ready", N: m.b.name})
	return m.b.w.failing("ready", m.b.name)
}

func (m mixPW) NotReady() error {
	m.b.w.log(Ev{Ev: "notready", N: m.b.name})
	return m.b.w.failing("notready", m.b.name)
}

type mixCW struct{ b *base }

func (m mixCW) NotifyConfig(_ context.Context, conf *confmap.Conf) error {
	w := m.b.w
	equal := conf != nil && reflect.DeepEqual(conf.ToStringMap(), w.orig)
	if conf != nil {
		// "The extension owns the confmap.Conf": it may change it
		_ = conf.Merge(confmap.NewFromStringMap(map[string]any{"touched_by_" + m.b.name: true}))
	}
	w.mu.Lock()
	w.confs[m.b.name] = conf
	w.mu.Unlock()
	w.log(Ev{Ev: "config", N: m.b.name, Equal: equal, Own: true}) // Own is settled at the end of the lifetime
	return w.failing("config", m.b.name)
}

type mixSW struct{ b *base }

func (m mixSW) ComponentStatusChanged(*componentstatus.InstanceID, *componentstatus.Event) {
	m.b.w.log(Ev{Ev: "status", N: m.b.name})
}

type (
	e000 struct{ *base }
	e100 struct {
		*base
		mixPW
	}
	e010 struct {
		*base
		mixCW
	}
	e001 struct {
		*base
		mixSW
	}
	e110 struct {
		*base
		mixPW
		mixCW
	}
	e101 struct {
		*base
		mixPW
		mixSW
	}
	e011 struct {
		*base
		mixCW
		mixSW
	}
	e111 struct {
		*base
		mixPW
		mixCW
		mixSW
	}
)

func has(s []string, x string) bool {
	for _, y := range s {
		if y == x {
			return true
		}
	}
	return false
}

func (w *world) newExt(name string) extension.Extension {
	b := &base{w: w, name: name}
	for _, d := range w.sc.Deps[name] {
		b.deps = append(b.deps, component.MustNewID(d))
	}
	p, c, s := has(w.sc.PW, name), has(w.sc.CW, name), has(w.sc.SW, name)
	switch {
	case p && c && s:
		return e111{b, mixPW{b}, mixCW{b}, mixSW{b}}
	case p && c:
		return e110{b, mixPW{b}, mixCW{b}}
	case p && s:
		return e101{b, mixPW{b}, mixSW{b}}
	case c && s:
		return e011{b, mixCW{b}, mixSW{b}}
	case p:
		return e100{b, mixPW{b}}
	case c:
		return e010{b, mixCW{b}}
	case s:
		return e001{b, mixSW{b}}
	}
	return e000{b}
}

// ---- pipeline components
type comp struct {
	w    *world
	name string
}

func (c *comp) Start(context.Context, component.Host) error {
	err := c.w.failing("cstart", c.name)
	c.w.log(Ev{Ev: "cstart_end", N: c.name, OK: err == nil})
	return err
}

func (c *comp) Shutdown(context.Context) error {
	c.w.log(Ev{Ev: "cstop", N: c.name})
	return c.w.failing("cshutdown", c.name)
}
func (c *comp) Capabilities() consumer.Capabilities         { return consumer.Capabilities{} }
func (c *comp) ConsumeLogs(context.Context, plog.Logs) error { return nil }

var rcvs = []string{"r1", "r2"}

func runScript(sc Script) []Ev {
	w := &world{sc: sc, fail: map[string]bool{}, confs: map[string]*confmap.Conf{}}
	for _, f := range sc.Fail {
		w.fail[f[0]+":"+f[1]] = true
	}
	w.log(Ev{Ev: "reset", ID: sc.ID, Exts: sc.Exts, Rcvs: rcvs, Comps: []string{"r1", "r2", "p1", "e1"}, PW: sc.PW, CW: sc.CW, SW: sc.SW, Conf: sc.Conf})
	empty := func() component.Config { return &struct{}{} }
	set := service.Settings{
		BuildInfo:           component.NewDefaultBuildInfo(),
		ReceiversConfigs:    map[component.ID]component.Config{},
		ReceiversFactories:  map[component.Type]receiver.Factory{},
		ProcessorsConfigs:   map[component.ID]component.Config{component.MustNewID("p1"): &struct{}{}},
		ProcessorsFactories: map[component.Type]processor.Factory{},
		ExportersConfigs:    map[component.ID]component.Config{component.MustNewID("e1"): &struct{}{}},
		ExportersFactories:  map[component.Type]exporter.Factory{},
		ExtensionsConfigs:   map[component.ID]component.Config{},
		ExtensionsFactories: map[component.Type]extension.Factory{},
		AsyncErrorChannel:   make(chan error, 16),
	}
	var rids []component.ID
	for _, r := range rcvs {
		r := r
		typ := component.MustNewType(r)
		rids = append(rids, component.NewID(typ))
		set.ReceiversConfigs[component.NewID(typ)] = &struct{}{}
		set.ReceiversFactories[typ] = receiver.NewFactory(typ, empty, receiver.WithLogs(
			func(context.Context, receiver.Settings, component.Config, consumer.Logs) (receiver.Logs, error) {
				return &comp{w: w, name: r}, nil
			}, component.StabilityLevelStable))
	}
	pt, et := component.MustNewType("p1"), component.MustNewType("e1")
	set.ProcessorsFactories[pt] = processor.NewFactory(pt, empty, processor.WithLogs(
		func(_ context.Context, _ processor.Settings, _ component.Config, next consumer.Logs) (processor.Logs, error) {
			return &procComp{comp: comp{w: w, name: "p1"}, next: next}, nil
		}, component.StabilityLevelStable))
	set.ExportersFactories[et] = exporter.NewFactory(et, empty, exporter.WithLogs(
		func(context.Context, exporter.Settings, component.Config) (exporter.Logs, error) {
			return &comp{w: w, name: "e1"}, nil
		}, component.StabilityLevelStable))
	var xids extensions.Config
	for _, x := range sc.Exts {
		x := x
		typ := component.MustNewType(x)
		xids = append(xids, component.NewID(typ))
		set.ExtensionsConfigs[component.NewID(typ)] = &struct{}{}
		set.ExtensionsFactories[typ] = extension.NewFactory(typ, empty,
			func(context.Context, extension.Settings, component.Config) (extension.Extension, error) { return w.newExt(x), nil },
			component.StabilityLevelStable)
	}
	if sc.Conf {
		w.orig = map[string]any{
			"receivers": map[string]any{"r1": nil, "r2": nil},
			"service":   map[string]any{"pipelines": map[string]any{"logs": map[string]any{"receivers": []any{"r1", "r2"}, "exporters": []any{"e1"}}}},
			"marker":    sc.ID,
		}
		set.CollectorConf = confmap.NewFromStringMap(w.orig)
	}
	scfg := service.Config{
		Telemetry: telemetry.Config{
			Logs:    telemetry.LogsConfig{Level: zapcore.FatalLevel, Encoding: "console", OutputPaths: []string{"stderr"}, ErrorOutputPaths: []string{"stderr"}},
			Metrics: telemetry.MetricsConfig{Level: configtelemetry.LevelNone},
		},
		Extensions: xids,
		Pipelines: pipelines.Config{pipeline.NewID(pipeline.SignalLogs): {
			Receivers: rids, Processors: []component.ID{component.NewID(pt)}, Exporters: []component.ID{component.NewID(et)}}},
	}
	ctx := context.Background()
	srv, err := service.New(ctx, set, scfg)
	if err != nil {
		w.log(Ev{Ev: "harness_error", Text: "service.New: " + err.Error()})
		return w.evs
	}
	done := make(chan struct{})
	go func() {
		defer close(done)
		serr := srv.Start(ctx)
		w.log(Ev{Ev: "svc_start_end", OK: serr == nil, Conf: sc.Conf})
		derr := srv.Shutdown(ctx)
		w.log(Ev{Ev: "svc_stop_end", OK: derr == nil})
	}()
	select {
	case <-done:
	case <-time.After(60 * time.Second):
		w.log(Ev{Ev: "harness_error", Text: "lifetime did not finish within 60 s"})
		return w.evs
	}
	// settle `own`: nobody else sees what an extension did to the configuration it was given
	w.mu.Lock()
	defer w.mu.Unlock()
	foreign := func(m map[string]any, me string) bool {
		for _, x := range sc.Exts {
			if x != me {
				if _, ok := m["touched_by_"+x]; ok {
					return true
				}
			}
		}
		return false
	}
	svcTouched := sc.Conf && !reflect.DeepEqual(set.CollectorConf.ToStringMap(), w.orig)
	for k := range w.evs {
		if w.evs[k].Ev == "config" {
			c := w.confs[w.evs[k].N]
			w.evs[k].Own = c != nil && !foreign(c.ToStringMap(), w.evs[k].N) && !svcTouched
		}
	}
	return w.evs
}

type procComp struct {
	comp
	next consumer.Logs
}

func (p *procComp) ConsumeLogs(ctx context.Context, ld plog.Logs) error { return p.next.ConsumeLogs(ctx, ld) }

func main() {
	if len(os.Args) != 4 || os.Args[1] != "run" {
		fmt.Fprintln(os.Stderr, "usage: svcnotify run <scripts.ndjson> <events.ndjson>")
		os.Exit(3)
	}
	in, err := os.Open(os.Args[2])
	if err != nil {
		fmt.Fprintln(os.Stderr, err)
		os.Exit(3)
	}
	var scripts []Script
	sc := bufio.NewScanner(in)
	sc.Buffer(make([]byte, 1<<20), 1<<26)
	for sc.Scan() {
		var s Script
		if err := json.Unmarshal(sc.Bytes(), &s); err != nil {
			fmt.Fprintln(os.Stderr, err)
			os.Exit(3)
		}
		scripts = append(scripts, s)
	}
	results := make([][]Ev, len(scripts))
	sem := make(chan struct{}, 8)
	var wg sync.WaitGroup
	for i := range scripts {
		wg.Add(1)
		sem <- struct{}{}
		go func(i int) {
			defer wg.Done()
			defer func() { <-sem }()
			results[i] = runScript(scripts[i])
		}(i)
	}
	wg.Wait()
	out, err := os.Create(os.Args[3])
	if err != nil {
		fmt.Fprintln(os.Stderr, err)
		os.Exit(3)
	}
	bw := bufio.NewWriter(out)
	enc := json.NewEncoder(bw)
	for _, evs := range results {
		for _, e := range evs {
			_ = enc.Encode(e)
		}
	}
	if err := bw.Flush(); err != nil {
		fmt.Fprintln(os.Stderr, err)
		os.Exit(3)
	}
	_ = out.Close()
	_ = errors.New
}
