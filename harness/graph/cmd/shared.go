package main

import (
	"context"

	"go.opentelemetry.io/collector/component"
	"go.opentelemetry.io/collector/consumer"
	"go.opentelemetry.io/collector/consumer/xconsumer"
	"go.opentelemetry.io/collector/internal/sharedcomponent"
	"go.opentelemetry.io/collector/receiver"
	"go.opentelemetry.io/collector/receiver/xreceiver"
)

// sharedInner is the one object behind all signals of a receiver built with internal/sharedcomponent
// (the way the OTLP receiver shares its servers).  It logs inner_start / inner_shutdown.
type sharedInner struct{ base }

func (s *sharedInner) Start(context.Context, component.Host) error {
	s.w.log(s.ev("inner_start"))
	err := s.scripted("start")
	e := s.ev("inner_start_end")
	e.OK = bptr(err == nil)
	s.w.log(e)
	return err
}

func (s *sharedInner) Shutdown(context.Context) error {
	s.w.log(s.ev("inner_shutdown"))
	err := s.scripted("shutdown")
	e := s.ev("inner_shutdown_end")
	e.OK = bptr(err == nil)
	s.w.log(e)
	return err
}

// sharedNode is what the graph sees for one signal: it logs the node-level Start/Shutdown calls and
// delegates to the sharedcomponent wrapper, which must call the inner object once.
type sharedNode struct {
	base
	comp *sharedcomponent.Component[*sharedInner]
}

func (n *sharedNode) Start(ctx context.Context, host component.Host) error {
	n.w.log(n.ev("start"))
	err := n.comp.Start(ctx, host)
	e := n.ev("start_end")
	e.OK = bptr(err == nil)
	n.w.log(e)
	return err
}

func (n *sharedNode) Shutdown(ctx context.Context) error {
	n.w.log(n.ev("shutdown"))
	err := n.comp.Shutdown(ctx)
	e := n.ev("shutdown_end")
	e.OK = bptr(err == nil)
	n.w.log(e)
	return err
}

func (w *world) sharedReceiverFactory(typ string) receiver.Factory {
	m := sharedcomponent.NewMap[component.ID, *sharedInner]()
	mk := func(sig string, set receiver.Settings, next any) (*sharedNode, error) {
		comp, err := m.LoadOrStore(set.ID, func() (*sharedInner, error) {
			in := &sharedInner{base{w: w, k: "shared", id: w.mid(set.ID), inst: w.inst()}}
			w.log(in.ev("create"))
			return in, nil
		})
		if err != nil {
			return nil, err
		}
		n := &sharedNode{base: base{w: w, k: "receiver", id: w.mid(set.ID), sig: sig, inst: w.inst()}, comp: comp}
		w.log(n.ev("create"))
		w.mu.Lock()
		w.receivers = append(w.receivers, &rcvInst{id: n.id, sig: sig, next: next})
		w.mu.Unlock()
		return n, nil
	}
	sl := component.StabilityLevelDevelopment
	return xreceiver.NewFactory(component.MustNewType(typ), func() component.Config { return &struct{}{} },
		xreceiver.WithLogs(func(_ context.Context, set receiver.Settings, _ component.Config, next consumer.Logs) (receiver.Logs, error) {
			return mk(sLogs, set, next)
		}, sl),
		xreceiver.WithTraces(func(_ context.Context, set receiver.Settings, _ component.Config, next consumer.Traces) (receiver.Traces, error) {
			return mk(sTraces, set, next)
		}, sl),
		xreceiver.WithMetrics(func(_ context.Context, set receiver.Settings, _ component.Config, next consumer.Metrics) (receiver.Metrics, error) {
			return mk(sMetrics, set, next)
		}, sl),
		xreceiver.WithProfiles(func(_ context.Context, set receiver.Settings, _ component.Config, next xconsumer.Profiles) (xreceiver.Profiles, error) {
			return mk(sProfiles, set, next)
		}, sl),
	)
}
