package main

import "errors"

func runC10(in, out string, seed int64) error { return errors.New("not implemented") }
