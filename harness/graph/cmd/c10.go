package main

import (
	"bufio"
	"context"
	"encoding/json"
	"errors"
	"fmt"
	"hash/fnv"
	"math/rand"
	"os"
	"runtime"
	"sync"
	"time"

	"go.uber.org/zap/zapcore"

	"go.opentelemetry.io/collector/component"
	"go.opentelemetry.io/collector/config/configtelemetry"
	"go.opentelemetry.io/collector/extension"
	"go.opentelemetry.io/collector/service"
	"go.opentelemetry.io/collector/service/extensions"
	"go.opentelemetry.io/collector/service/pipelines"
	"go.opentelemetry.io/collector/service/telemetry"
)

// quietServiceConfig: no own telemetry output (logs at fatal level, metrics off).
func quietServiceConfig(exts extensions.Config, pipes pipelines.Config) service.Config {
	return service.Config{
		Telemetry: telemetry.Config{
			Logs: telemetry.LogsConfig{
				Level:            zapcore.FatalLevel,
				Encoding:         "console",
				OutputPaths:      []string{"stderr"},
				ErrorOutputPaths: []string{"stderr"},
			},
			Metrics: telemetry.MetricsConfig{Level: configtelemetry.LevelNone},
		},
		Extensions: exts,
		Pipelines:  pipes,
	}
}

// Obs10 is the call log of one service lifetime.
type Obs10 struct {
	I         int     `json:"i"`
	NewErr    *string `json:"new_err"`
	Panic     *string `json:"panic"`
	Timeout   bool    `json:"timeout"`
	Events    []Event `json:"events"`     // create / start / start_end / shutdown / shutdown_end / inner_* in call order
	StartOK   *bool   `json:"start_ok"`   // service.Start returned nil
	StartIs   *bool   `json:"start_is"`   // the returned error wraps the scripted failure of the component (errors.Is)
	StartErr  string  `json:"start_err"`  // text, for the report only
	StopOK    *bool   `json:"stop_ok"`    // service.Shutdown returned nil
	StopIsAll *bool   `json:"stop_isall"` // the returned error wraps every scripted shutdown failure that happened
	StopErr   string  `json:"stop_err"`
}

func runOne10(i int, cfg *Config, seed int64) (obs Obs10) {
	obs = Obs10{I: i, Events: []Event{}}
	h := fnv.New64a()
	fmt.Fprintf(h, "c10/%d/%d", seed, i)
	rng := rand.New(rand.NewSource(int64(h.Sum64())))
	w := newWorld()
	if i%3 == 1 {
		w.stem = longStem
	}
	for _, f := range cfg.Fail {
		w.fail[f] = true
	}
	defer func() {
		if r := recover(); r != nil {
			buf := make([]byte, 4096)
			buf = buf[:runtime.Stack(buf, false)]
			obs.Panic = sptr(fmt.Sprintf("%v\n%s", r, buf))
		}
		w.mu.Lock()
		obs.Events = append(obs.Events, w.events...)
		w.mu.Unlock()
	}()
	wi := wire(w, cfg, rng)
	// no connector takes the per-pipeline route here: no data flows in C10
	extCfg := map[component.ID]component.Config{}
	extFac := map[component.Type]extension.Factory{}
	var svcExts extensions.Config
	for _, x := range shuffled(rng, cfg.Exts) {
		id := component.MustNewID(x)
		var deps []component.ID
		for _, d := range cfg.Deps[x] {
			deps = append(deps, component.MustNewID(d))
		}
		extCfg[id] = &extConfig{Deps: deps, Watch: rng.Intn(2) == 0}
		extFac[id.Type()] = w.extensionFactory(x)
		svcExts = append(svcExts, id)
	}
	// an extension may be listed more than once in service::extensions (nothing rejects that): it is still ONE component,
	// started and stopped once, in dependency order (seeded change C10-6 gave every list entry a node of its own)
	if len(svcExts) > 0 && rng.Intn(4) == 0 {
		dup := svcExts[rng.Intn(len(svcExts))]
		at := rng.Intn(len(svcExts) + 1)
		svcExts = append(svcExts[:at], append(extensions.Config{dup}, svcExts[at:]...)...)
	}
	ctx := context.Background()
	set := service.Settings{
		BuildInfo:           component.NewDefaultBuildInfo(),
		ReceiversConfigs:    wi.rcvCfg,
		ReceiversFactories:  wi.rcvFac,
		ProcessorsConfigs:   wi.procCfg,
		ProcessorsFactories: wi.procFac,
		ExportersConfigs:    wi.expCfg,
		ExportersFactories:  wi.expFac,
		ConnectorsConfigs:   wi.connCfg,
		ConnectorsFactories: wi.connFac,
		ExtensionsConfigs:   extCfg,
		ExtensionsFactories: extFac,
		AsyncErrorChannel:   make(chan error, 16),
	}
	scfg := quietServiceConfig(svcExts, wi.pipes)
	srv, err := service.New(ctx, set, scfg)
	if err != nil {
		obs.NewErr = sptr(err.Error())
		return obs
	}
	// the lifetime: Start; on error the caller shuts the service down (otelcol/collector.go); else Shutdown
	done := make(chan struct{})
	go func() {
		defer close(done)
		defer func() {
			if r := recover(); r != nil {
				obs.Panic = sptr(fmt.Sprint(r))
			}
		}()
		serr := srv.Start(ctx)
		w.log(Event{Ev: "svc_start_end", OK: bptr(serr == nil)})
		obs.StartOK = bptr(serr == nil)
		if serr != nil {
			obs.StartErr = serr.Error()
			is := false
			w.mu.Lock()
			for _, fe := range w.failErrs {
				if errors.Is(serr, fe) {
					is = true
				}
			}
			w.mu.Unlock()
			obs.StartIs = bptr(is)
		}
		w.mu.Lock()
		nStartFail := len(w.failErrs)
		w.mu.Unlock()
		derr := srv.Shutdown(ctx)
		w.log(Event{Ev: "svc_shutdown_end", OK: bptr(derr == nil)})
		obs.StopOK = bptr(derr == nil)
		if derr != nil {
			obs.StopErr = derr.Error()
		}
		all := true
		w.mu.Lock()
		for _, fe := range w.failErrs[nStartFail:] {
			if derr == nil || !errors.Is(derr, fe) {
				all = false
			}
		}
		w.mu.Unlock()
		obs.StopIsAll = bptr(all)
	}()
	select {
	case <-done:
	case <-time.After(60 * time.Second):
		obs.Timeout = true
	}
	return obs
}

func runC10(in, out string, seed int64) error { return runScripts(in, out, seed, runOne10) }

func runScripts(in, out string, seed int64, one func(int, *Config, int64) Obs10) error {
	lines, err := readLines(in)
	if err != nil {
		return err
	}
	results := make([][]byte, len(lines))
	var wg sync.WaitGroup
	var firstErr error
	var emu sync.Mutex
	workers := runtime.NumCPU()
	if workers > 8 {
		workers = 8
	}
	ch := make(chan int)
	for k := 0; k < workers; k++ {
		wg.Add(1)
		go func() {
			defer wg.Done()
			for i := range ch {
				var cfg Config
				if err := json.Unmarshal(lines[i], &cfg); err != nil {
					emu.Lock()
					firstErr = fmt.Errorf("line %d: %w", i, err)
					emu.Unlock()
					continue
				}
				obs := one(i, &cfg, seed)
				b, err := json.Marshal(obs)
				if err != nil {
					emu.Lock()
					firstErr = err
					emu.Unlock()
					continue
				}
				results[i] = b
			}
		}()
	}
	for i := range lines {
		ch <- i
	}
	close(ch)
	wg.Wait()
	if firstErr != nil {
		return firstErr
	}
	f, err := os.Create(out)
	if err != nil {
		return err
	}
	bw := bufio.NewWriter(f)
	for _, b := range results {
		bw.Write(b)
		bw.WriteByte('\n')
	}
	if err := bw.Flush(); err != nil {
		return err
	}
	return f.Close()
}
