package main

import (
	"context"
	"encoding/json"
	"errors"
	"fmt"
	"hash/fnv"
	"math/rand"
	"runtime"
	"sync"
	"time"

	"go.opentelemetry.io/collector/component"
	"go.opentelemetry.io/collector/confmap"
	"go.opentelemetry.io/collector/confmap/provider/yamlprovider"
	"go.opentelemetry.io/collector/exporter/exportertest"
	"go.opentelemetry.io/collector/extension"
	"go.opentelemetry.io/collector/featuregate"
	"go.opentelemetry.io/collector/otelcol"
	"go.opentelemetry.io/collector/receiver/receivertest"
)

// seqProvider hands out its documents one after the other (the last one again and again) and keeps the
// watcher function of the latest retrieval, so that the driver can announce a configuration change.
type seqProvider struct {
	mu    sync.Mutex
	docs  [][]byte
	n     int
	watch confmap.WatcherFunc
}

func (p *seqProvider) Retrieve(_ context.Context, _ string, w confmap.WatcherFunc) (*confmap.Retrieved, error) {
	p.mu.Lock()
	defer p.mu.Unlock()
	k := p.n
	if k >= len(p.docs) {
		k = len(p.docs) - 1
	}
	p.n++
	p.watch = w
	var raw map[string]any
	if err := json.Unmarshal(p.docs[k], &raw); err != nil {
		return nil, err
	}
	return confmap.NewRetrieved(raw)
}
func (p *seqProvider) Scheme() string                 { return "seq" }
func (p *seqProvider) Shutdown(context.Context) error { return nil }

// warm-up configuration of the reload mode: stock no-op components, nothing of it is recorded
const warmup = `{"receivers":{"nop":null},"exporters":{"nop":null},"service":{"telemetry":{"logs":{"level":"fatal"},"metrics":{"level":"none"}},"pipelines":{"logs/warmup":{"receivers":["nop"],"exporters":["nop"]}}}}`

// runOne10Col runs one lifetime through the real otelcol.Collector: configuration document -> resolver ->
// unmarshal -> validation -> service.New -> Start (on failure the collector itself must shut the service down,
// otelcol/collector.go setupConfigurationComponents) -> Running -> Shutdown() -> service.Shutdown.
// service.Start / service.Shutdown are not visible from outside: their results are taken from the collector
// state (Running reached or not) and from the error Run returns.
//
// reload = true: the collector first brings up a warm-up configuration of no-op components; once it is Running
// the provider announces a change and the scripted configuration is brought up BY THE RELOAD
// (Collector.reloadConfiguration).  The statement makes no difference between the first and a later service of
// a collector: a failing Start must be followed by the shutdown of everything, every component of the service
// is shut down exactly once.
func runOne10Col(i int, cfg *Config, seed int64) Obs10 { return runOne10ColMode(i, cfg, seed, false) }

func runOne10ColReload(i int, cfg *Config, seed int64) Obs10 { return runOne10ColMode(i, cfg, seed, true) }

func runOne10ColMode(i int, cfg *Config, seed int64, reload bool) (obs Obs10) {
	obs = Obs10{I: i, Events: []Event{}}
	h := fnv.New64a()
	fmt.Fprintf(h, "c10col/%d/%d", seed, i)
	rng := rand.New(rand.NewSource(int64(h.Sum64())))
	w := newWorld()
	if i%3 == 1 {
		w.stem = longStem
	}
	for _, f := range cfg.Fail {
		w.fail[f] = true
	}
	wi := wire(w, cfg, rng)
	extFac := map[component.Type]extension.Factory{}
	exts := map[string]any{}
	var svcExts []string
	for _, x := range shuffled(rng, cfg.Exts) {
		extFac[component.MustNewType(x)] = w.extensionFactory(x)
		body := map[string]any{}
		if len(cfg.Deps[x]) > 0 {
			body["deps"] = cfg.Deps[x]
		}
		if rng.Intn(2) == 0 {
			body["watch"] = true
		}
		exts[x] = body
		svcExts = append(svcExts, x)
	}
	if len(svcExts) > 0 && rng.Intn(4) == 0 { // a repeated entry in service::extensions: still one component (see c10.go)
		dup := svcExts[rng.Intn(len(svcExts))]
		at := rng.Intn(len(svcExts) + 1)
		svcExts = append(svcExts[:at], append([]string{dup}, svcExts[at:]...)...)
	}
	sect := func(ids map[component.ID]component.Config) map[string]any {
		m := map[string]any{}
		for id := range ids {
			m[id.String()] = nil
		}
		return m
	}
	pipes := map[string]any{}
	for pid, p := range wi.pipes {
		strs := func(ids []component.ID) []string {
			out := []string{}
			for _, id := range ids {
				out = append(out, id.String())
			}
			return out
		}
		pipes[pid.String()] = map[string]any{"receivers": strs(p.Receivers), "processors": strs(p.Processors), "exporters": strs(p.Exporters)}
	}
	svc := map[string]any{
		"telemetry": map[string]any{"logs": map[string]any{"level": "fatal"}, "metrics": map[string]any{"level": "none"}},
		"pipelines": pipes,
	}
	if len(svcExts) > 0 {
		svc["extensions"] = svcExts
	}
	doc := map[string]any{"receivers": sect(wi.rcvCfg), "exporters": sect(wi.expCfg), "service": svc}
	if len(wi.procCfg) > 0 {
		doc["processors"] = sect(wi.procCfg)
	}
	if len(wi.connCfg) > 0 {
		doc["connectors"] = sect(wi.connCfg)
	}
	if len(exts) > 0 {
		doc["extensions"] = exts
	}
	text, err := json.Marshal(doc)
	if err != nil {
		obs.NewErr = sptr(err.Error())
		return obs
	}
	prov := &seqProvider{docs: [][]byte{text}}
	if reload {
		prov.docs = [][]byte{[]byte(warmup), text}
		rf, ef := receivertest.NewNopFactory(), exportertest.NewNopFactory()
		wi.rcvFac[rf.Type()] = rf
		wi.expFac[ef.Type()] = ef
	}
	col, err := otelcol.NewCollector(otelcol.CollectorSettings{
		Factories: func() (otelcol.Factories, error) {
			return otelcol.Factories{Receivers: wi.rcvFac, Processors: wi.procFac, Exporters: wi.expFac,
				Connectors: wi.connFac, Extensions: extFac}, nil
		},
		BuildInfo:               component.NewDefaultBuildInfo(),
		DisableGracefulShutdown: true,
		SkipSettingGRPCLogger:   true,
		ConfigProviderSettings: otelcol.ConfigProviderSettings{ResolverSettings: confmap.ResolverSettings{
			URIs: []string{"seq:doc"},
			ProviderFactories: []confmap.ProviderFactory{yamlprovider.NewFactory(),
				confmap.NewProviderFactory(func(confmap.ProviderSettings) confmap.Provider { return prov })},
		}},
	})
	if err != nil {
		obs.NewErr = sptr(err.Error())
		return obs
	}
	done := make(chan error, 1)
	go func() {
		defer func() {
			if r := recover(); r != nil {
				buf := make([]byte, 4096)
				buf = buf[:runtime.Stack(buf, false)]
				done <- fmt.Errorf("panic: %v\n%s", r, buf)
			}
		}()
		done <- col.Run(context.Background())
	}()
	deadline := time.After(60 * time.Second)
	tick := time.NewTicker(200 * time.Microsecond)
	defer tick.Stop()
	running := false
	warm := !reload // the warm-up service (reload mode) has been seen Running and the change has been announced
	var runErr error
wait:
	for {
		select {
		case runErr = <-done:
			break wait
		case <-deadline:
			obs.Timeout = true
			return obs
		case <-tick.C:
			if !warm {
				if col.GetState() == otelcol.StateRunning {
					warm = true
					prov.mu.Lock()
					wf := prov.watch
					prov.mu.Unlock()
					go wf(&confmap.ChangeEvent{})
				}
				continue
			}
			if reload {
				// Running again only counts once the scripted service is being built (its first recorded call)
				w.mu.Lock()
				n := len(w.events)
				w.mu.Unlock()
				if n == 0 {
					continue
				}
			}
			if !running && col.GetState() == otelcol.StateRunning {
				running = true
				// service.Start has returned nil: nothing may be started after this point
				w.log(Event{Ev: "svc_start_end", OK: bptr(true)})
				col.Shutdown()
			}
		}
	}
	w.mu.Lock()
	events := append([]Event{}, w.events...)
	failErrs := append([]error(nil), w.failErrs...)
	w.mu.Unlock()
	if !running {
		// Run returned without ever being Running.  Either nothing was created (configuration rejected) ...
		started := false
		for _, e := range events {
			if e.Ev == "start" {
				started = true
			}
		}
		if !started && len(cfg.Fail) == 0 || runErr == nil {
			msg := "collector did not reach Running"
			if runErr != nil {
				msg = runErr.Error()
			}
			obs.NewErr = sptr(msg)
			obs.Events = events
			return obs
		}
		// ... or service.Start failed: it returned before the first Shutdown call
		pos := len(events)
		for k, e := range events {
			if e.Ev == "shutdown" {
				pos = k
				break
			}
		}
		events = append(events[:pos:pos], append([]Event{{Ev: "svc_start_end", OK: bptr(false)}}, events[pos:]...)...)
	}
	// classify the scripted errors that actually happened by the phase they belong to
	var startErrs, stopErrs []error
	for _, fe := range failErrs {
		if len(fe.Error()) >= 14 && fe.Error()[:14] == "scripted start" {
			startErrs = append(startErrs, fe)
		} else {
			stopErrs = append(stopErrs, fe)
		}
	}
	obs.StartOK = bptr(running)
	if !running {
		is := false
		for _, fe := range startErrs {
			if errors.Is(runErr, fe) {
				is = true
			}
		}
		obs.StartIs = bptr(is)
		obs.StartErr = runErr.Error()
	}
	reported := 0
	for _, fe := range stopErrs {
		if runErr != nil && errors.Is(runErr, fe) {
			reported++
		}
	}
	stopOK := reported == 0
	if running {
		stopOK = runErr == nil
	}
	if runErr != nil {
		obs.StopErr = runErr.Error()
	}
	obs.StopOK = bptr(stopOK)
	obs.StopIsAll = bptr(reported == len(stopErrs))
	events = append(events, Event{Ev: "svc_shutdown_end", OK: bptr(stopOK)})
	obs.Events = events
	return obs
}

func runC10Col(in, out string, seed int64) error {
	// profiles pipelines are behind an alpha gate in the configuration validation
	if err := featuregate.GlobalRegistry().Set("service.profilesSupport", true); err != nil {
		return err
	}
	return runScripts(in, out, seed, runOne10Col)
}

func runC10ColReload(in, out string, seed int64) error {
	if err := featuregate.GlobalRegistry().Set("service.profilesSupport", true); err != nil {
		return err
	}
	return runScripts(in, out, seed, runOne10ColReload)
}
