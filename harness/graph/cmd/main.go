// Command graph-harness drives the real pipeline graph / service of /repo with instrumented components.
//
//	c09 <configs.ndjson> <observed.ndjson> <seed>   build every configuration with graph.Build, start, inject, record
//	c10 <scripts.ndjson> <observed.ndjson> <seed>   run service.New/Start/Shutdown with scripted failures, record the call log
//	c10col <scripts.ndjson> <observed.ndjson> <seed>   the same lifetimes through the real otelcol.Collector.Run / Shutdown
//	c10colreload ...                                   the same, the scripted configuration being brought up by a configuration reload
package main

import (
	"fmt"
	"os"
	"strconv"
)

func main() {
	if len(os.Args) < 5 {
		fmt.Fprintln(os.Stderr, "usage: graph-harness c09|c10 <in.ndjson> <out.ndjson> <seed>")
		os.Exit(64)
	}
	seed, err := strconv.ParseInt(os.Args[4], 10, 64)
	if err != nil {
		fmt.Fprintln(os.Stderr, "bad seed:", err)
		os.Exit(64)
	}
	switch os.Args[1] {
	case "c09":
		err = runC09(os.Args[2], os.Args[3], seed)
	case "c10":
		err = runC10(os.Args[2], os.Args[3], seed)
	case "c10col":
		err = runC10Col(os.Args[2], os.Args[3], seed)
	case "c10colreload":
		err = runC10ColReload(os.Args[2], os.Args[3], seed)
	default:
		err = fmt.Errorf("unknown mode %q", os.Args[1])
	}
	if err != nil {
		fmt.Fprintln(os.Stderr, "harness error:", err)
		os.Exit(1)
	}
}
