package main

import (
	"bufio"
	"context"
	"encoding/json"
	"fmt"
	"hash/fnv"
	"math/rand"
	"os"
	"runtime"
	"sync"

	"go.opentelemetry.io/collector/component"
	"go.opentelemetry.io/collector/component/componentstatus"
	"go.opentelemetry.io/collector/component/componenttest"
	"go.opentelemetry.io/collector/connector"
	"go.opentelemetry.io/collector/exporter"
	"go.opentelemetry.io/collector/extension"
	"go.opentelemetry.io/collector/pipeline"
	"go.opentelemetry.io/collector/processor"
	"go.opentelemetry.io/collector/receiver"
	"go.opentelemetry.io/collector/service"
	"go.opentelemetry.io/collector/service/internal/builders"
	"go.opentelemetry.io/collector/service/internal/graph"
	"go.opentelemetry.io/collector/service/internal/status"
	"go.opentelemetry.io/collector/service/pipelines"
)

// PipeCfg / ConnCfg / Config mirror the JSON printed by PipelineGraphGen (only the configuration part is read).
type PipeCfg struct {
	Sig  string   `json:"sig"`
	Name string   `json:"name"`
	R    []string `json:"r"`
	P    []string `json:"p"`
	E    []string `json:"e"`
}

type ConnCfg struct {
	ID  string      `json:"id"`
	Sup [][2]string `json:"sup"`
}

type Config struct {
	Pipes []PipeCfg `json:"pipes"`
	Conns []ConnCfg `json:"conns"`
	// C10 only
	Exts   []string            `json:"exts,omitempty"`   // service::extensions, in configured order
	Deps   map[string][]string `json:"deps,omitempty"`   // extension -> extensions it depends on
	Fail   []string            `json:"fail,omitempty"`   // scripted failures ("start|kind|id|sig|sig2")
	Shared []string            `json:"shared,omitempty"` // receiver ids built with internal/sharedcomponent
}

type wiring struct {
	rcvCfg, procCfg, expCfg, connCfg map[component.ID]component.Config
	rcvFac                           map[component.Type]receiver.Factory
	procFac                          map[component.Type]processor.Factory
	expFac                           map[component.Type]exporter.Factory
	connFac                          map[component.Type]connector.Factory
	pipes                            pipelines.Config
}

func shuffled(rng *rand.Rand, in []string) []string {
	out := append([]string(nil), in...)
	rng.Shuffle(len(out), func(i, j int) { out[i], out[j] = out[j], out[i] })
	return out
}

// wire turns a generated configuration into builder inputs.  Receiver / exporter lists are shuffled
// (their order is not part of the configuration's meaning), the processor list keeps its order.
func wire(w *world, cfg *Config, rng *rand.Rand) *wiring {
	wi := &wiring{
		rcvCfg: map[component.ID]component.Config{}, procCfg: map[component.ID]component.Config{},
		expCfg: map[component.ID]component.Config{}, connCfg: map[component.ID]component.Config{},
		rcvFac: map[component.Type]receiver.Factory{}, procFac: map[component.Type]processor.Factory{},
		expFac: map[component.Type]exporter.Factory{}, connFac: map[component.Type]connector.Factory{},
		pipes: pipelines.Config{},
	}
	isConn := map[string]bool{}
	for _, c := range cfg.Conns {
		isConn[c.ID] = true
		id := w.cid("connector", c.ID)
		wi.connCfg[id] = &struct{}{}
		wi.connFac[id.Type()] = w.connectorFactory(c.ID, c.Sup)
		w.routeEach[c.ID] = rng.Intn(2) == 0
	}
	shared := map[string]bool{}
	for _, s := range cfg.Shared {
		shared[s] = true
	}
	ids := func(kind string, l []string) []component.ID {
		out := make([]component.ID, 0, len(l))
		for _, s := range l {
			k := kind
			if isConn[s] {
				k = "connector"
			} else if kind == "receiver" && shared[s] {
				k = "shared"
			}
			out = append(out, w.cid(k, s))
		}
		return out
	}
	for _, p := range cfg.Pipes {
		for _, r := range p.R {
			if !isConn[r] {
				k := "receiver"
				if shared[r] {
					k = "shared" // built with internal/sharedcomponent: keeps a type of its own
				}
				id := w.cid(k, r)
				if _, ok := wi.rcvCfg[id]; !ok {
					wi.rcvCfg[id] = &struct{}{}
					if _, have := wi.rcvFac[id.Type()]; !have {
						wi.rcvFac[id.Type()] = w.receiverFactory(id.Type().String(), shared[r])
					}
				}
			}
		}
		for _, x := range p.P {
			id := w.cid("processor", x)
			if _, ok := wi.procCfg[id]; !ok {
				wi.procCfg[id] = &struct{}{}
				if _, have := wi.procFac[id.Type()]; !have {
					wi.procFac[id.Type()] = w.processorFactory(id.Type().String())
				}
			}
		}
		for _, e := range p.E {
			if !isConn[e] {
				id := w.cid("exporter", e)
				if _, ok := wi.expCfg[id]; !ok {
					wi.expCfg[id] = &struct{}{}
					if _, have := wi.expFac[id.Type()]; !have {
						wi.expFac[id.Type()] = w.exporterFactory(id.Type().String())
					}
				}
			}
		}
		// a receiver / exporter / connector may be named more than once in a pipeline's receivers / exporters list (only repeated
		// processors are rejected): it is still listed by that pipeline ONCE -- one instance, one path, data once per path
		// (seeded change C09-7 delivered once per list entry)
		repeat := func(l []string) []string {
			if len(l) > 0 && rng.Intn(5) == 0 {
				at := rng.Intn(len(l) + 1)
				l = append(l[:at:at], append([]string{l[rng.Intn(len(l))]}, l[at:]...)...)
			}
			return l
		}
		wi.pipes[pipeline.MustNewIDWithName(p.Sig, w.stem+p.Name)] = &pipelines.PipelineConfig{
			Receivers:  ids("receiver", repeat(shuffled(rng, p.R))),
			Processors: ids("processor", p.P),
			Exporters:  ids("exporter", repeat(shuffled(rng, p.E))),
		}
	}
	return wi
}

// Obs09 is what really happened for one configuration.
type Obs09 struct {
	I         int       `json:"i"`
	BuildErr  *string   `json:"build_err"`
	Panic     *string   `json:"panic"`
	Creates   []Event   `json:"creates"`
	Starts    int       `json:"starts"`    // number of Start calls observed
	Shutdowns int       `json:"shutdowns"` // number of Shutdown calls observed
	StartErr  *string   `json:"start_err"`
	FeedErrs  []string  `json:"feed_errs"`
	Arrivals  []Arrival `json:"arrivals"`
	Injected  []string  `json:"injected"` // tags injected: "<receiver>|<signal>|<k>"
	RouteEach []string  `json:"route_each"`
	// only when graph.Build failed: the same configuration through the public service.New
	SvcNewErr *string `json:"svc_new_err"`
	SvcStarts int     `json:"svc_starts"`
	SvcTried  bool    `json:"svc_tried"`
}

func sptr(s string) *string { return &s }

func runOne09(i int, cfg *Config, seed int64) (obs Obs09) {
	obs = Obs09{I: i, Creates: []Event{}, FeedErrs: []string{}, Arrivals: []Arrival{}, Injected: []string{}, RouteEach: []string{}}
	h := fnv.New64a()
	fmt.Fprintf(h, "%d/%d", seed, i)
	rng := rand.New(rand.NewSource(int64(h.Sum64())))
	w := newWorld()
	if i%3 == 1 {
		w.stem = longStem
	}
	defer func() {
		if r := recover(); r != nil {
			buf := make([]byte, 4096)
			buf = buf[:runtime.Stack(buf, false)]
			obs.Panic = sptr(fmt.Sprintf("%v\n%s", r, buf))
		}
		w.mu.Lock()
		defer w.mu.Unlock()
		for _, e := range w.events {
			switch e.Ev {
			case "create":
				obs.Creates = append(obs.Creates, e)
			case "start":
				obs.Starts++
			case "shutdown":
				obs.Shutdowns++
			}
		}
		obs.Arrivals = append(obs.Arrivals, w.arrivals...)
		for c, each := range w.routeEach {
			if each {
				obs.RouteEach = append(obs.RouteEach, c)
			}
		}
	}()
	wi := wire(w, cfg, rng)
	ctx := context.Background()
	g, err := graph.Build(ctx, graph.Settings{
		Telemetry:        componenttest.NewNopTelemetrySettings(),
		BuildInfo:        component.NewDefaultBuildInfo(),
		ReceiverBuilder:  builders.NewReceiver(wi.rcvCfg, wi.rcvFac),
		ProcessorBuilder: builders.NewProcessor(wi.procCfg, wi.procFac),
		ExporterBuilder:  builders.NewExporter(wi.expCfg, wi.expFac),
		ConnectorBuilder: builders.NewConnector(wi.connCfg, wi.connFac),
		PipelineConfigs:  wi.pipes,
		ReportStatus:     func(*componentstatus.InstanceID, *componentstatus.Event) {},
	})
	if err != nil {
		obs.BuildErr = sptr(err.Error())
		// the same configuration must also be refused by the public service.New, with nothing started
		obs.SvcTried = true
		w2 := newWorld()
		w2.stem = w.stem
		wi2 := wire(w2, cfg, rng)
		srv, nerr := service.New(ctx, service.Settings{
			BuildInfo:        component.NewDefaultBuildInfo(),
			ReceiversConfigs: wi2.rcvCfg, ReceiversFactories: wi2.rcvFac,
			ProcessorsConfigs: wi2.procCfg, ProcessorsFactories: wi2.procFac,
			ExportersConfigs: wi2.expCfg, ExportersFactories: wi2.expFac,
			ConnectorsConfigs: wi2.connCfg, ConnectorsFactories: wi2.connFac,
			ExtensionsConfigs:   map[component.ID]component.Config{},
			ExtensionsFactories: map[component.Type]extension.Factory{},
			AsyncErrorChannel:   make(chan error, 4),
		}, quietServiceConfig(nil, wi2.pipes))
		if nerr != nil {
			obs.SvcNewErr = sptr(nerr.Error())
		} else {
			_ = srv.Shutdown(ctx)
		}
		w2.mu.Lock()
		for _, e := range w2.events {
			if e.Ev == "start" {
				obs.SvcStarts++
			}
		}
		w2.mu.Unlock()
		return obs
	}
	rep := status.NewReporter(func(*componentstatus.InstanceID, *componentstatus.Event) {}, func(error) {})
	if err := g.StartAll(ctx, &graph.Host{Reporter: rep}); err != nil {
		obs.StartErr = sptr(err.Error())
	}
	w.mu.Lock()
	rcvs := append([]*rcvInst(nil), w.receivers...)
	w.mu.Unlock()
	for _, r := range rcvs {
		n := 1 + rng.Intn(2)
		for k := 0; k < n; k++ {
			tag := fmt.Sprintf("%s|%s|%d", r.id, r.sig, k)
			obs.Injected = append(obs.Injected, tag)
			// every other injection carries a context that has already ended (the caller gave up after handing the data over):
			// where the data goes is decided by the configuration, not by the context (seeded change C09-9 stopped the
			// fan-out when the context was done)
			ictx := ctx
			if k%2 == 1 {
				cctx, cancel := context.WithCancel(ctx)
				cancel()
				ictx = cctx
			}
			if err := feed(ictx, r.next, newPayload(r.sig, tag, "")); err != nil {
				obs.FeedErrs = append(obs.FeedErrs, tag+": "+err.Error())
			}
		}
	}
	if err := g.ShutdownAll(ctx, rep); err != nil {
		obs.FeedErrs = append(obs.FeedErrs, "shutdown: "+err.Error())
	}
	return obs
}

func readLines(path string) ([][]byte, error) {
	f, err := os.Open(path)
	if err != nil {
		return nil, err
	}
	defer f.Close()
	var lines [][]byte
	sc := bufio.NewScanner(f)
	sc.Buffer(make([]byte, 1<<20), 1<<26)
	for sc.Scan() {
		if len(sc.Bytes()) > 0 {
			lines = append(lines, append([]byte(nil), sc.Bytes()...))
		}
	}
	return lines, sc.Err()
}

func runC09(in, out string, seed int64) error {
	lines, err := readLines(in)
	if err != nil {
		return err
	}
	results := make([][]byte, len(lines))
	var wg sync.WaitGroup
	var firstErr error
	var emu sync.Mutex
	workers := runtime.NumCPU()
	if workers > 8 {
		workers = 8
	}
	ch := make(chan int)
	for k := 0; k < workers; k++ {
		wg.Add(1)
		go func() {
			defer wg.Done()
			for i := range ch {
				var cfg Config
				if err := json.Unmarshal(lines[i], &cfg); err != nil {
					emu.Lock()
					firstErr = fmt.Errorf("line %d: %w", i, err)
					emu.Unlock()
					continue
				}
				obs := runOne09(i, &cfg, seed)
				b, err := json.Marshal(obs)
				if err != nil {
					emu.Lock()
					firstErr = err
					emu.Unlock()
					continue
				}
				results[i] = b
			}
		}()
	}
	for i := range lines {
		ch <- i
	}
	close(ch)
	wg.Wait()
	if firstErr != nil {
		return firstErr
	}
	f, err := os.Create(out)
	if err != nil {
		return err
	}
	bw := bufio.NewWriter(f)
	for _, b := range results {
		bw.Write(b)
		bw.WriteByte('\n')
	}
	if err := bw.Flush(); err != nil {
		return err
	}
	return f.Close()
}
