// Instrumented test components shared by the C09 (routing) and C10 (lifecycle) drivers.
//
// Everything a component observes goes into one event log under one mutex (sequence numbers, never
// wall-clock time).  Payloads carry two resource attributes:
//
//	tag    identity of the injection (receiver id, signal, sequence number)
//	trail  ";"-joined hops: "proc,<id>,<instance#>"  /  "conn,<id>,<from>,<to>,<dest pipeline or empty>"
//
// Processors append themselves in place (MutatesData=true), connectors build a NEW payload of the
// destination signal carrying tag and trail, exporters record what arrives.
package main

import (
	"context"
	"errors"
	"fmt"
	"strings"
	"sync"

	"go.opentelemetry.io/collector/component"
	"go.opentelemetry.io/collector/component/componentstatus"
	"go.opentelemetry.io/collector/confmap"
	"go.opentelemetry.io/collector/connector"
	"go.opentelemetry.io/collector/connector/xconnector"
	"go.opentelemetry.io/collector/consumer"
	"go.opentelemetry.io/collector/consumer/xconsumer"
	"go.opentelemetry.io/collector/exporter"
	"go.opentelemetry.io/collector/exporter/xexporter"
	"go.opentelemetry.io/collector/extension"
	"go.opentelemetry.io/collector/pdata/pcommon"
	"go.opentelemetry.io/collector/pdata/plog"
	"go.opentelemetry.io/collector/pdata/pmetric"
	"go.opentelemetry.io/collector/pdata/pprofile"
	"go.opentelemetry.io/collector/pdata/ptrace"
	"go.opentelemetry.io/collector/pipeline"
	"go.opentelemetry.io/collector/processor"
	"go.opentelemetry.io/collector/processor/xprocessor"
	"go.opentelemetry.io/collector/receiver"
	"go.opentelemetry.io/collector/receiver/xreceiver"
)

const (
	sLogs     = "logs"
	sTraces   = "traces"
	sMetrics  = "metrics"
	sProfiles = "profiles"
)

var allSignals = []string{sLogs, sTraces, sMetrics, sProfiles}

// ---------------------------------------------------------------- event log

// Event is one line of the recorded trace.
type Event struct {
	Ev   string `json:"ev"`
	K    string `json:"k,omitempty"`    // kind: receiver | processor | exporter | connector | extension
	ID   string `json:"id,omitempty"`   // component id
	Sig  string `json:"sig,omitempty"`  // signal (connector: source signal)
	Sig2 string `json:"sig2,omitempty"` // connector: destination signal
	Inst int    `json:"inst,omitempty"` // creation number of the instance (unique per world)
	OK   *bool  `json:"ok,omitempty"`   // result of start_end / shutdown_end
}

// Arrival is one payload seen by an exporter.
type Arrival struct {
	Tag   string   `json:"tag"`
	X     string   `json:"x"`
	S     string   `json:"s"`
	Trail []string `json:"t"`
}

// rcvInst is a created receiver instance with the consumer the graph handed to it.
type rcvInst struct {
	id, sig string
	next    any
}

// script decides which component calls fail (C10).  Keys: "start|<k>|<id>|<sig>|<sig2>" (processors: any instance).
type script map[string]bool

type world struct {
	mu        sync.Mutex
	events    []Event
	arrivals  []Arrival
	receivers []*rcvInst
	nextInst  int
	fail      script
	routeEach map[string]bool // connector ids that route per destination pipeline
	shared    map[string]*sharedInner
	failErrs  []error // the errors returned by scripted failures (to check errors.Is on the service result)
	// stem != "": the LONG naming scheme.  The specification knows components and pipelines as opaque identifiers; how an
	// identifier is spelled must not matter.  Short scheme: id x -> component.ID of type x without name, pipelines
	// <signal>/<name>.  Long scheme: receivers / processors / exporters are instances of ONE type per kind ("rcv/…",
	// "proc/…", "exp/…": one factory serving several ids, as with real components), every name (pipelines too) is a
	// 200-byte common stem followed by the identifier -- valid names (<= 1024 characters) that differ only after a
	// long common prefix (seeded change C09-5 truncated identifiers at 128 bytes when deriving node identity).
	stem string
}

var longStem = "tenant-" + strings.Repeat("verif.long-name_", 12) + "é-"

// cid: the component.ID used for model identifier x of the given kind ("receiver" | "processor" | "exporter" | other).
func (w *world) cid(kind, x string) component.ID {
	if w.stem == "" {
		return component.MustNewID(x)
	}
	typ := x
	switch kind {
	case "receiver":
		typ = "rcv"
	case "processor":
		typ = "proc"
	case "exporter":
		typ = "exp"
	}
	return component.MustNewIDWithName(typ, w.stem+x)
}

// mid: the model identifier behind a component.ID (inverse of cid).
func (w *world) mid(id component.ID) string {
	if w.stem != "" && strings.HasPrefix(id.Name(), w.stem) {
		return id.Name()[len(w.stem):]
	}
	return id.String()
}

// mpid: the model's spelling of a pipeline id.
func (w *world) mpid(pid pipeline.ID) string {
	if w.stem != "" && strings.HasPrefix(pid.Name(), w.stem) {
		if n := pid.Name()[len(w.stem):]; n != "" {
			return pid.Signal().String() + "/" + n
		}
		return pid.Signal().String()
	}
	return pid.String()
}

func newWorld() *world {
	return &world{fail: script{}, routeEach: map[string]bool{}, shared: map[string]*sharedInner{}}
}

func (w *world) log(e Event) {
	w.mu.Lock()
	w.events = append(w.events, e)
	w.mu.Unlock()
}

func (w *world) inst() int {
	w.mu.Lock()
	defer w.mu.Unlock()
	w.nextInst++
	return w.nextInst
}

func bptr(b bool) *bool { return &b }

// base is the lifecycle part of every instrumented component.
type base struct {
	w                *world
	k, id, sig, sig2 string
	inst             int
}

func (b *base) ev(name string) Event {
	return Event{Ev: name, K: b.k, ID: b.id, Sig: b.sig, Sig2: b.sig2, Inst: b.inst}
}

func (b *base) key(op string) string {
	return op + "|" + b.k + "|" + b.id + "|" + b.sig + "|" + b.sig2
}

func (b *base) scripted(op string) error {
	b.w.mu.Lock()
	defer b.w.mu.Unlock()
	if b.w.fail[b.key(op)] {
		err := fmt.Errorf("scripted %s failure of %s %s %s%s", op, b.k, b.id, b.sig, b.sig2)
		b.w.failErrs = append(b.w.failErrs, err)
		return err
	}
	return nil
}

func (b *base) Start(context.Context, component.Host) error {
	b.w.log(b.ev("start"))
	err := b.scripted("start")
	e := b.ev("start_end")
	e.OK = bptr(err == nil)
	b.w.log(e)
	return err
}

func (b *base) Shutdown(context.Context) error {
	b.w.log(b.ev("shutdown"))
	err := b.scripted("shutdown")
	e := b.ev("shutdown_end")
	e.OK = bptr(err == nil)
	b.w.log(e)
	return err
}

// ---------------------------------------------------------------- payloads

func newPayload(sig, tag, trail string) any {
	var attrs pcommon.Map
	var data any
	switch sig {
	case sLogs:
		d := plog.NewLogs()
		rl := d.ResourceLogs().AppendEmpty()
		rl.ScopeLogs().AppendEmpty().LogRecords().AppendEmpty().Body().SetStr("x")
		attrs, data = rl.Resource().Attributes(), d
	case sTraces:
		d := ptrace.NewTraces()
		rs := d.ResourceSpans().AppendEmpty()
		rs.ScopeSpans().AppendEmpty().Spans().AppendEmpty().SetName("x")
		attrs, data = rs.Resource().Attributes(), d
	case sMetrics:
		d := pmetric.NewMetrics()
		rm := d.ResourceMetrics().AppendEmpty()
		m := rm.ScopeMetrics().AppendEmpty().Metrics().AppendEmpty()
		m.SetName("x")
		m.SetEmptyGauge().DataPoints().AppendEmpty().SetIntValue(1)
		attrs, data = rm.Resource().Attributes(), d
	case sProfiles:
		d := pprofile.NewProfiles()
		rp := d.ResourceProfiles().AppendEmpty()
		rp.ScopeProfiles().AppendEmpty().Profiles().AppendEmpty()
		attrs, data = rp.Resource().Attributes(), d
	default:
		panic("unknown signal " + sig)
	}
	attrs.PutStr("tag", tag)
	attrs.PutStr("trail", trail)
	return data
}

func attrsOf(data any) pcommon.Map {
	switch d := data.(type) {
	case plog.Logs:
		return d.ResourceLogs().At(0).Resource().Attributes()
	case ptrace.Traces:
		return d.ResourceSpans().At(0).Resource().Attributes()
	case pmetric.Metrics:
		return d.ResourceMetrics().At(0).Resource().Attributes()
	case pprofile.Profiles:
		return d.ResourceProfiles().At(0).Resource().Attributes()
	}
	panic(fmt.Sprintf("unknown payload %T", data))
}

func getStr(m pcommon.Map, k string) string {
	v, ok := m.Get(k)
	if !ok {
		return ""
	}
	return v.Str()
}

func appendTrail(trail, hop string) string {
	if trail == "" {
		return hop
	}
	return trail + ";" + hop
}

// feed hands data to a consumer of the matching signal.
func feed(ctx context.Context, next any, data any) error {
	switch d := data.(type) {
	case plog.Logs:
		return next.(consumer.Logs).ConsumeLogs(ctx, d)
	case ptrace.Traces:
		return next.(consumer.Traces).ConsumeTraces(ctx, d)
	case pmetric.Metrics:
		return next.(consumer.Metrics).ConsumeMetrics(ctx, d)
	case pprofile.Profiles:
		return next.(xconsumer.Profiles).ConsumeProfiles(ctx, d)
	}
	return fmt.Errorf("unknown payload %T", data)
}

// ---------------------------------------------------------------- receiver

type vReceiver struct{ base }

func (w *world) receiverFactory(typ string, sharedAcrossSignals bool) receiver.Factory {
	mk := func(sig string, set receiver.Settings, next any) (*vReceiver, error) {
		r := &vReceiver{base{w: w, k: "receiver", id: w.mid(set.ID), sig: sig, inst: w.inst()}}
		w.log(r.ev("create"))
		w.mu.Lock()
		w.receivers = append(w.receivers, &rcvInst{id: r.id, sig: sig, next: next})
		w.mu.Unlock()
		return r, nil
	}
	if sharedAcrossSignals {
		return w.sharedReceiverFactory(typ)
	}
	return xreceiver.NewFactory(component.MustNewType(typ), func() component.Config { return &struct{}{} },
		xreceiver.WithLogs(func(_ context.Context, set receiver.Settings, _ component.Config, next consumer.Logs) (receiver.Logs, error) {
			return mk(sLogs, set, next)
		}, component.StabilityLevelDevelopment),
		xreceiver.WithTraces(func(_ context.Context, set receiver.Settings, _ component.Config, next consumer.Traces) (receiver.Traces, error) {
			return mk(sTraces, set, next)
		}, component.StabilityLevelDevelopment),
		xreceiver.WithMetrics(func(_ context.Context, set receiver.Settings, _ component.Config, next consumer.Metrics) (receiver.Metrics, error) {
			return mk(sMetrics, set, next)
		}, component.StabilityLevelDevelopment),
		xreceiver.WithProfiles(func(_ context.Context, set receiver.Settings, _ component.Config, next xconsumer.Profiles) (xreceiver.Profiles, error) {
			return mk(sProfiles, set, next)
		}, component.StabilityLevelDevelopment),
	)
}

// ---------------------------------------------------------------- processor

type vProcessor struct {
	base
	next any
}

func (p *vProcessor) Capabilities() consumer.Capabilities {
	return consumer.Capabilities{MutatesData: true}
}

func (p *vProcessor) pass(ctx context.Context, data any) error {
	a := attrsOf(data)
	a.PutStr("trail", appendTrail(getStr(a, "trail"), fmt.Sprintf("proc,%s,%d", p.id, p.inst)))
	return feed(ctx, p.next, data)
}
func (p *vProcessor) ConsumeLogs(ctx context.Context, d plog.Logs) error       { return p.pass(ctx, d) }
func (p *vProcessor) ConsumeTraces(ctx context.Context, d ptrace.Traces) error { return p.pass(ctx, d) }
func (p *vProcessor) ConsumeMetrics(ctx context.Context, d pmetric.Metrics) error {
	return p.pass(ctx, d)
}

func (p *vProcessor) ConsumeProfiles(ctx context.Context, d pprofile.Profiles) error {
	return p.pass(ctx, d)
}

func (w *world) processorFactory(typ string) processor.Factory {
	mk := func(sig string, set processor.Settings, next any) (*vProcessor, error) {
		p := &vProcessor{base: base{w: w, k: "processor", id: w.mid(set.ID), sig: sig, inst: w.inst()}, next: next}
		w.log(p.ev("create"))
		return p, nil
	}
	return xprocessor.NewFactory(component.MustNewType(typ), func() component.Config { return &struct{}{} },
		xprocessor.WithLogs(func(_ context.Context, set processor.Settings, _ component.Config, next consumer.Logs) (processor.Logs, error) {
			return mk(sLogs, set, next)
		}, component.StabilityLevelDevelopment),
		xprocessor.WithTraces(func(_ context.Context, set processor.Settings, _ component.Config, next consumer.Traces) (processor.Traces, error) {
			return mk(sTraces, set, next)
		}, component.StabilityLevelDevelopment),
		xprocessor.WithMetrics(func(_ context.Context, set processor.Settings, _ component.Config, next consumer.Metrics) (processor.Metrics, error) {
			return mk(sMetrics, set, next)
		}, component.StabilityLevelDevelopment),
		xprocessor.WithProfiles(func(_ context.Context, set processor.Settings, _ component.Config, next xconsumer.Profiles) (xprocessor.Profiles, error) {
			return mk(sProfiles, set, next)
		}, component.StabilityLevelDevelopment),
	)
}

// ---------------------------------------------------------------- exporter

type vExporter struct{ base }

func (x *vExporter) Capabilities() consumer.Capabilities {
	return consumer.Capabilities{MutatesData: false}
}

func (x *vExporter) take(data any) error {
	a := attrsOf(data)
	var trail []string
	if t := getStr(a, "trail"); t != "" {
		trail = strings.Split(t, ";")
	} else {
		trail = []string{}
	}
	x.w.mu.Lock()
	x.w.arrivals = append(x.w.arrivals, Arrival{Tag: getStr(a, "tag"), X: x.id, S: x.sig, Trail: trail})
	x.w.mu.Unlock()
	return nil
}
func (x *vExporter) ConsumeLogs(_ context.Context, d plog.Logs) error             { return x.take(d) }
func (x *vExporter) ConsumeTraces(_ context.Context, d ptrace.Traces) error       { return x.take(d) }
func (x *vExporter) ConsumeMetrics(_ context.Context, d pmetric.Metrics) error    { return x.take(d) }
func (x *vExporter) ConsumeProfiles(_ context.Context, d pprofile.Profiles) error { return x.take(d) }

func (w *world) exporterFactory(typ string) exporter.Factory {
	mk := func(sig string, set exporter.Settings) (*vExporter, error) {
		x := &vExporter{base{w: w, k: "exporter", id: w.mid(set.ID), sig: sig, inst: w.inst()}}
		w.log(x.ev("create"))
		return x, nil
	}
	return xexporter.NewFactory(component.MustNewType(typ), func() component.Config { return &struct{}{} },
		xexporter.WithLogs(func(_ context.Context, set exporter.Settings, _ component.Config) (exporter.Logs, error) {
			return mk(sLogs, set)
		}, component.StabilityLevelDevelopment),
		xexporter.WithTraces(func(_ context.Context, set exporter.Settings, _ component.Config) (exporter.Traces, error) {
			return mk(sTraces, set)
		}, component.StabilityLevelDevelopment),
		xexporter.WithMetrics(func(_ context.Context, set exporter.Settings, _ component.Config) (exporter.Metrics, error) {
			return mk(sMetrics, set)
		}, component.StabilityLevelDevelopment),
		xexporter.WithProfiles(func(_ context.Context, set exporter.Settings, _ component.Config) (xexporter.Profiles, error) {
			return mk(sProfiles, set)
		}, component.StabilityLevelDevelopment),
	)
}

// ---------------------------------------------------------------- connector

type vConnector struct {
	base
	next any // consumer of the destination signal; also a *RouterAndConsumer
}

func (c *vConnector) Capabilities() consumer.Capabilities {
	return consumer.Capabilities{MutatesData: false}
}

// routerOf returns the pipeline ids behind next and a per-pipeline consumer lookup.
func routerOf(next any) ([]pipeline.ID, func(pipeline.ID) (any, error), bool) {
	switch r := next.(type) {
	case connector.LogsRouterAndConsumer:
		return r.PipelineIDs(), func(p pipeline.ID) (any, error) { return r.Consumer(p) }, true
	case connector.TracesRouterAndConsumer:
		return r.PipelineIDs(), func(p pipeline.ID) (any, error) { return r.Consumer(p) }, true
	case connector.MetricsRouterAndConsumer:
		return r.PipelineIDs(), func(p pipeline.ID) (any, error) { return r.Consumer(p) }, true
	case xconnector.ProfilesRouterAndConsumer:
		return r.PipelineIDs(), func(p pipeline.ID) (any, error) { return r.Consumer(p) }, true
	}
	return nil, nil, false
}

func (c *vConnector) pass(ctx context.Context, data any) error {
	a := attrsOf(data)
	tag, trail := getStr(a, "tag"), getStr(a, "trail")
	c.w.mu.Lock()
	each := c.w.routeEach[c.id]
	c.w.mu.Unlock()
	if each {
		pids, lookup, ok := routerOf(c.next)
		if !ok {
			return errors.New("connector next consumer is not a router")
		}
		var errs error
		for _, pid := range pids {
			cons, err := lookup(pid)
			if err != nil {
				errs = errors.Join(errs, err)
				continue
			}
			hop := fmt.Sprintf("conn,%s,%s,%s,%s", c.id, c.sig, c.sig2, c.w.mpid(pid))
			errs = errors.Join(errs, feed(ctx, cons, newPayload(c.sig2, tag, appendTrail(trail, hop))))
		}
		return errs
	}
	hop := fmt.Sprintf("conn,%s,%s,%s,", c.id, c.sig, c.sig2)
	return feed(ctx, c.next, newPayload(c.sig2, tag, appendTrail(trail, hop)))
}
func (c *vConnector) ConsumeLogs(ctx context.Context, d plog.Logs) error       { return c.pass(ctx, d) }
func (c *vConnector) ConsumeTraces(ctx context.Context, d ptrace.Traces) error { return c.pass(ctx, d) }
func (c *vConnector) ConsumeMetrics(ctx context.Context, d pmetric.Metrics) error {
	return c.pass(ctx, d)
}

func (c *vConnector) ConsumeProfiles(ctx context.Context, d pprofile.Profiles) error {
	return c.pass(ctx, d)
}

// connectorFactory supports exactly the given <<from, to>> pairs.
func (w *world) connectorFactory(typ string, pairs [][2]string) connector.Factory {
	mk := func(from, to string, set connector.Settings, next any) (*vConnector, error) {
		c := &vConnector{base: base{w: w, k: "connector", id: w.mid(set.ID), sig: from, sig2: to, inst: w.inst()}, next: next}
		w.log(c.ev("create"))
		return c, nil
	}
	sl := component.StabilityLevelDevelopment
	var opts []xconnector.FactoryOption
	for _, p := range pairs {
		from, to := p[0], p[1]
		switch from + ">" + to {
		case "logs>logs":
			opts = append(opts, xconnector.WithLogsToLogs(func(_ context.Context, s connector.Settings, _ component.Config, n consumer.Logs) (connector.Logs, error) {
				return mk(from, to, s, n)
			}, sl))
		case "logs>traces":
			opts = append(opts, xconnector.WithLogsToTraces(func(_ context.Context, s connector.Settings, _ component.Config, n consumer.Traces) (connector.Logs, error) {
				return mk(from, to, s, n)
			}, sl))
		case "logs>metrics":
			opts = append(opts, xconnector.WithLogsToMetrics(func(_ context.Context, s connector.Settings, _ component.Config, n consumer.Metrics) (connector.Logs, error) {
				return mk(from, to, s, n)
			}, sl))
		case "logs>profiles":
			opts = append(opts, xconnector.WithLogsToProfiles(func(_ context.Context, s connector.Settings, _ component.Config, n xconsumer.Profiles) (connector.Logs, error) {
				return mk(from, to, s, n)
			}, sl))
		case "traces>logs":
			opts = append(opts, xconnector.WithTracesToLogs(func(_ context.Context, s connector.Settings, _ component.Config, n consumer.Logs) (connector.Traces, error) {
				return mk(from, to, s, n)
			}, sl))
		case "traces>traces":
			opts = append(opts, xconnector.WithTracesToTraces(func(_ context.Context, s connector.Settings, _ component.Config, n consumer.Traces) (connector.Traces, error) {
				return mk(from, to, s, n)
			}, sl))
		case "traces>metrics":
			opts = append(opts, xconnector.WithTracesToMetrics(func(_ context.Context, s connector.Settings, _ component.Config, n consumer.Metrics) (connector.Traces, error) {
				return mk(from, to, s, n)
			}, sl))
		case "traces>profiles":
			opts = append(opts, xconnector.WithTracesToProfiles(func(_ context.Context, s connector.Settings, _ component.Config, n xconsumer.Profiles) (connector.Traces, error) {
				return mk(from, to, s, n)
			}, sl))
		case "metrics>logs":
			opts = append(opts, xconnector.WithMetricsToLogs(func(_ context.Context, s connector.Settings, _ component.Config, n consumer.Logs) (connector.Metrics, error) {
				return mk(from, to, s, n)
			}, sl))
		case "metrics>traces":
			opts = append(opts, xconnector.WithMetricsToTraces(func(_ context.Context, s connector.Settings, _ component.Config, n consumer.Traces) (connector.Metrics, error) {
				return mk(from, to, s, n)
			}, sl))
		case "metrics>metrics":
			opts = append(opts, xconnector.WithMetricsToMetrics(func(_ context.Context, s connector.Settings, _ component.Config, n consumer.Metrics) (connector.Metrics, error) {
				return mk(from, to, s, n)
			}, sl))
		case "metrics>profiles":
			opts = append(opts, xconnector.WithMetricsToProfiles(func(_ context.Context, s connector.Settings, _ component.Config, n xconsumer.Profiles) (connector.Metrics, error) {
				return mk(from, to, s, n)
			}, sl))
		case "profiles>logs":
			opts = append(opts, xconnector.WithProfilesToLogs(func(_ context.Context, s connector.Settings, _ component.Config, n consumer.Logs) (xconnector.Profiles, error) {
				return mk(from, to, s, n)
			}, sl))
		case "profiles>traces":
			opts = append(opts, xconnector.WithProfilesToTraces(func(_ context.Context, s connector.Settings, _ component.Config, n consumer.Traces) (xconnector.Profiles, error) {
				return mk(from, to, s, n)
			}, sl))
		case "profiles>metrics":
			opts = append(opts, xconnector.WithProfilesToMetrics(func(_ context.Context, s connector.Settings, _ component.Config, n consumer.Metrics) (xconnector.Profiles, error) {
				return mk(from, to, s, n)
			}, sl))
		case "profiles>profiles":
			opts = append(opts, xconnector.WithProfilesToProfiles(func(_ context.Context, s connector.Settings, _ component.Config, n xconsumer.Profiles) (xconnector.Profiles, error) {
				return mk(from, to, s, n)
			}, sl))
		default:
			panic("bad pair " + from + ">" + to)
		}
	}
	return xconnector.NewFactory(component.MustNewType(typ), func() component.Config { return &struct{}{} }, opts...)
}

// ---------------------------------------------------------------- extension

type extConfig struct {
	Deps []component.ID `mapstructure:"deps"`
	// Watch: the extension also implements the optional capability interfaces (status watcher, pipeline watcher, config
	// watcher).  The start / stop order the property states depends on the declared dependencies ONLY, whatever else an
	// extension implements (seeded change C10-5 ordered status watchers first).
	Watch bool `mapstructure:"watch"`
}

type vExtension struct {
	base
	deps []component.ID
}

// vDepExtension additionally implements extensioncapabilities.Dependent.
type vDepExtension struct{ vExtension }

func (e *vDepExtension) Dependencies() []component.ID { return e.deps }

// vWatchExtension additionally implements componentstatus.Watcher, extensioncapabilities.PipelineWatcher and ConfigWatcher.
type vWatchExtension struct{ vExtension }

func (e *vWatchExtension) ComponentStatusChanged(*componentstatus.InstanceID, *componentstatus.Event) {}
func (e *vWatchExtension) Ready() error                                                             { return nil }
func (e *vWatchExtension) NotReady() error                                                          { return nil }
func (e *vWatchExtension) NotifyConfig(context.Context, *confmap.Conf) error                        { return nil }

// vDepWatchExtension: all of the above.
type vDepWatchExtension struct{ vWatchExtension }

func (e *vDepWatchExtension) Dependencies() []component.ID { return e.deps }

func (w *world) extensionFactory(typ string) extension.Factory {
	return extension.NewFactory(component.MustNewType(typ), func() component.Config { return &extConfig{} },
		func(_ context.Context, set extension.Settings, cfg component.Config) (extension.Extension, error) {
			ec := cfg.(*extConfig)
			e := vExtension{base: base{w: w, k: "extension", id: w.mid(set.ID), inst: w.inst()}, deps: ec.Deps}
			w.log(e.ev("create"))
			switch {
			case len(e.deps) > 0 && ec.Watch:
				return &vDepWatchExtension{vWatchExtension{e}}, nil
			case len(e.deps) > 0:
				return &vDepExtension{e}, nil
			case ec.Watch:
				return &vWatchExtension{e}, nil
			}
			return &e, nil
		}, component.StabilityLevelDevelopment)
}
