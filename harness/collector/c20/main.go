// Conformance driver for C20 (collector run loop).
//
//	c20 run <scripts.ndjson> <trace.ndjson> [watchdog-seconds]
//
// Every line of scripts.ndjson is one script (projected by checks/C20.py from a behaviour that TLC
// generated from specs/Collector/Collector.tla):
//
//	{"id":"..","comps":["x","e1","r1","r2"],"fail":["start:2:r1",..],
//	 "steps":[{"at":"idle","conc":false,"ev":[{"k":"change"},{"k":"fatal","c":"r1"}]}, ...]}
//
// For each script one real otelcol.Collector is run (public API only) with
//   - instrumented extension / exporter / receiver factories whose components log create, start,
//     shutdown with the generation tag taken from their configuration,
//   - an in-memory confmap provider (scheme "mem", two locations: mem:main serves the configuration
//     of generation k at the k-th retrieval, mem:aux an empty map) that can fire change events,
//   - real SIGHUP / SIGTERM / SIGINT sent to the own process (the harness keeps its own signal.Notify),
//   - Shutdown() from several goroutines, context cancellation, scripted fatal errors.
//
// A step is injected at its anchor: "pre" (before Run), "idle" (the collector is Running and quiet),
// "post" (after Run returned), or inside a callback that the run loop itself executes
// ("get:G", "create:G:C", "start:G:C", "stop:G:C", "pclose:G", "provsd"): the callback does not return before the
// injected events have settled, which pins the interleaving without any hook in /repo.
//
// All events go to one log under one mutex with sequence numbers; GetState() is sampled inside the
// same critical section.  The log is validated by TLC against specs/Collector/CollectorTrace.tla.
package main

import (
	"bufio"
	"context"
	"encoding/json"
	"errors"
	"fmt"
	"os"
	"os/signal"
	"regexp"
	"runtime"
	"strconv"
	"strings"
	"sync"
	"sync/atomic"
	"syscall"
	"time"

	"go.uber.org/zap"
	"go.uber.org/zap/zapcore"

	"go.opentelemetry.io/collector/component"
	"go.opentelemetry.io/collector/component/componentstatus"
	"go.opentelemetry.io/collector/confmap"
	"go.opentelemetry.io/collector/consumer"
	"go.opentelemetry.io/collector/exporter"
	"go.opentelemetry.io/collector/extension"
	"go.opentelemetry.io/collector/otelcol"
	"go.opentelemetry.io/collector/pdata/plog"
	"go.opentelemetry.io/collector/receiver"
)

// ---------------------------------------------------------------- script

type Inj struct {
	K string `json:"k"`           // change | change_err | sighup | sigterm | sigint | shutdown | ctx | fatal
	C string `json:"c,omitempty"` // component (fatal)
	N int    `json:"n,omitempty"` // goroutines (shutdown), released together by a spin barrier
}

type Step struct {
	At   string `json:"at"`
	Conc bool   `json:"conc,omitempty"`
	Ev   []Inj  `json:"ev"`
}

type Script struct {
	ID    string   `json:"id"`
	Comps []string `json:"comps"`
	Fail  []string `json:"fail"`
	Steps []Step   `json:"steps"`
}

// ---------------------------------------------------------------- recorder

type recorder struct {
	mu     sync.Mutex
	seq    int
	out    *bufio.Writer
	col    *otelcol.Collector
	last   time.Time
	closed bool // set after "end": goroutines left over from a hung script must not write any more
	lastSt string
	nclos  int
}

// add appends one event (with a GetState() sample taken in the same critical section) and returns the
// number of times the sampled state has changed to Closing so far.
func (r *recorder) add(ev string, kv ...any) int {
	n, _ := r.addS(ev, kv...)
	return n
}

func (r *recorder) addS(ev string, kv ...any) (int, string) {
	r.mu.Lock()
	defer r.mu.Unlock()
	if r.closed {
		return r.nclos, r.lastSt
	}
	if ev == "end" {
		r.closed = true
	}
	r.seq++
	m := map[string]any{"seq": r.seq, "ev": ev}
	if r.col != nil {
		st := r.col.GetState().String()
		m["st"] = st
		if st == "Closing" && r.lastSt != "Closing" {
			r.nclos++
		}
		r.lastSt = st
	} else {
		m["st"] = "NoCollector"
	}
	for i := 0; i+1 < len(kv); i += 2 {
		m[kv[i].(string)] = kv[i+1]
	}
	b, _ := json.Marshal(m)
	r.out.Write(b)
	r.out.WriteByte('\n')
	r.last = time.Now()
	return r.nclos, r.lastSt
}

func (r *recorder) sawClosing() bool {
	r.mu.Lock()
	defer r.mu.Unlock()
	return r.nclos > 0
}

func (r *recorder) idleFor() time.Duration {
	r.mu.Lock()
	defer r.mu.Unlock()
	return time.Since(r.last)
}

// ---------------------------------------------------------------- session

type comp struct {
	s       *session
	gen     int
	name    string
	mu      sync.Mutex
	host    component.Host
	stopped bool
}

type session struct {
	sc       *Script
	rec      *recorder
	col      *otelcol.Collector
	ctx      context.Context
	cancel   context.CancelFunc
	watchdog time.Duration

	mu        sync.Mutex
	gen       int                            // number of mem:main retrievals so far
	open      map[string]confmap.WatcherFunc // open retrievals ("main","aux") -> watcher func
	comps     map[string]*comp               // "gen:name"
	anch      map[string][]Step
	fail      map[string]bool
	fatalSeen map[string]chan struct{} // "gen:name" -> closed by the status watcher extension
	expectGen int                      // generation the collector should reach if every trigger takes effect
	sure      bool                     // the driver believes a sticky stop reason is outstanding
	sureFatal int                      // generation of an accepted fatal error (0 = none)
	sigReady  bool                     // the collector has registered its signal handlers
	nsig      int                      // signals sent since then
	runGID    string
	repGIDs   []string
	runDone   chan struct{}
}

var sigCh = make(chan os.Signal, 64)

var iidMu sync.Mutex
var iidN int

func nextIID() int {
	iidMu.Lock()
	defer iidMu.Unlock()
	iidN++
	return iidN
}

func key(op string, gen int, name string) string { return fmt.Sprintf("%s:%d:%s", op, gen, name) }

// fire injects the steps anchored at key k (called from callbacks executed by the run loop).
func (s *session) fire(k string) {
	s.mu.Lock()
	steps := s.anch[k]
	delete(s.anch, k)
	s.mu.Unlock()
	for _, st := range steps {
		s.injectStep(st)
	}
}

func (s *session) injectStep(st Step) {
	if st.Conc && len(st.Ev) > 1 {
		var wg sync.WaitGroup
		start := make(chan struct{})
		for _, in := range st.Ev {
			wg.Add(1)
			go func(in Inj) {
				defer wg.Done()
				<-start
				s.inject(in)
			}(in)
		}
		close(start)
		wg.Wait()
		return
	}
	for _, in := range st.Ev {
		s.inject(in)
	}
}

func gid() string {
	b := make([]byte, 64)
	b = b[:runtime.Stack(b, false)]
	f := strings.Fields(string(b))
	if len(f) > 1 {
		return f[1]
	}
	return "?"
}

func (s *session) inject(in Inj) {
	switch in.K {
	case "shutdown":
		n := in.N
		if n < 1 {
			n = 1
		}
		iid := nextIID()
		nc0, st0 := s.rec.addS("ext", "kind", "shutdown", "n", n, "iid", iid)
		var wg sync.WaitGroup
		var pmu sync.Mutex
		panics := 0
		done := make(chan struct{})
		// The callers are released together through a spin barrier: every goroutine announces that it
		// is ready and then busy-waits on an atomic flag, so that the calls really overlap (goroutines
		// that are merely started one after the other almost never do).
		if max := runtime.GOMAXPROCS(0) - 1; n > max && max >= 1 {
			n = max
		}
		var ready, release atomic.Int32
		for i := 0; i < n; i++ {
			wg.Add(1)
			go func() {
				defer wg.Done()
				defer func() {
					if r := recover(); r != nil {
						pmu.Lock()
						panics++
						pmu.Unlock()
					}
				}()
				ready.Add(1)
				for spins := 0; release.Load() == 0; spins++ {
					if spins > 1<<24 {
						runtime.Gosched() // the machine is badly overcommitted: do not burn it for ever
					}
				}
				s.col.Shutdown()
			}()
		}
		for t0 := time.Now(); ready.Load() < int32(n) && time.Since(t0) < 5*time.Second; {
			runtime.Gosched()
		}
		release.Store(1)
		go func() { wg.Wait(); close(done) }()
		select {
		case <-done:
			pmu.Lock()
			p := panics
			pmu.Unlock()
			nc1, st1 := s.rec.addS("ext_done", "kind", "shutdown", "panics", p, "blocked", false, "iid", iid)
			// certainly effective only if the collector was not Closing at any time during the call
			// (the code drops a request that arrives while a reload retires the old service)
			if nc0 == nc1 && p == 0 && (st0 == "Running" || st0 == "Starting") && (st1 == "Running" || st1 == "Starting") {
				s.mu.Lock()
				s.sure = true
				s.mu.Unlock()
			}
		case <-time.After(s.watchdog):
			s.rec.add("ext_done", "kind", "shutdown", "panics", 0, "blocked", true, "iid", iid)
		}
	case "ctx":
		s.rec.add("ext", "kind", "ctx")
		s.cancel()
	case "sigterm", "sighup", "sigint":
		s.mu.Lock()
		// registered for certain: after the settle time that follows the first Running, or once the
		// collector has been seen Closing (it only gets there from the select loop)
		reg := s.sigReady || s.rec.sawClosing()
		if reg && in.K != "sighup" && s.nsig < 3 {
			s.sure = true // (the collector's signal channel holds 3; what does not fit is dropped)
		}
		s.nsig++
		if reg && in.K == "sighup" {
			s.expectGen++
		}
		s.mu.Unlock()
		s.sendSignal(in.K, reg)
	case "change", "change_err":
		s.mu.Lock()
		var w confmap.WatcherFunc
		src := ""
		for _, k := range []string{"aux", "main"} {
			if f, ok := s.open[k]; ok {
				w, src = f, k
				break
			}
		}
		if w == nil {
			s.mu.Unlock()
			s.rec.add("skip", "kind", in.K, "why", "no open retrieval")
			return
		}
		var err error
		if in.K == "change_err" {
			err = errors.New("scripted watch error")
		}
		// logged while s.mu is held: the line precedes the pclose line of the retrieval it comes from
		s.rec.add("ext", "kind", in.K, "src", src)
		if in.K == "change" {
			s.expectGen++
		} else {
			s.sure = true
		}
		s.mu.Unlock()
		done := make(chan struct{})
		go func() {
			defer close(done)
			defer func() {
				if r := recover(); r != nil {
					s.rec.add("notify_done", "kind", in.K, "panic", true, "text", fmt.Sprint(r))
					return
				}
				s.rec.add("notify_done", "kind", in.K, "panic", false)
			}()
			w(&confmap.ChangeEvent{Error: err})
		}()
		select {
		case <-done:
		case <-time.After(15 * time.Millisecond): // buffer full: the notifier stays blocked (in flight)
		}
	case "fatal":
		// the reporter is the newest instance of the component that has been started and whose
		// Shutdown has not returned yet
		s.mu.Lock()
		var host component.Host
		var seen chan struct{}
		g := 0
		for k := s.gen; k >= 1 && host == nil; k-- {
			if c := s.comps[key("c", k, in.C)]; c != nil {
				c.mu.Lock()
				started := c.host != nil
				if _, ok := c.host.(componentstatus.Reporter); started && !ok {
					// extensions are handed the bare host: componentstatus.ReportStatus does nothing
					c.mu.Unlock()
					s.mu.Unlock()
					s.rec.add("skip", "kind", "fatal", "comp", in.C, "why", "the host given to this component is not a status reporter")
					return
				}
				if started && !c.stopped {
					host, g = c.host, k
					seen = make(chan struct{})
					s.fatalSeen[key("c", g, in.C)] = seen
					// logged while c.mu is held: the line precedes the component's shutdown_end line
					s.rec.add("ext", "kind", "fatal", "gen", g, "comp", in.C)
				}
				c.mu.Unlock()
				if started {
					break
				}
			}
		}
		s.mu.Unlock()
		if host == nil {
			s.rec.add("skip", "kind", "fatal", "comp", in.C, "why", "component not started or already shut down")
			return
		}
		done := make(chan struct{})
		go func() {
			defer close(done)
			s.mu.Lock()
			s.repGIDs = append(s.repGIDs, gid())
			s.mu.Unlock()
			componentstatus.ReportStatus(host, componentstatus.NewFatalErrorEvent(errors.New("scripted fatal error")))
			s.rec.add("fatal_done", "gen", g, "comp", in.C)
		}()
		select {
		case <-seen: // the reporter is inside its critical section, about to hand the error over
		case <-done:
		case <-time.After(30 * time.Millisecond): // reporter mutex busy (or event refused by the FSM)
		}
	default:
		s.rec.add("skip", "kind", in.K, "why", "unknown")
	}
}

// Signals sent to the own process are counted by one dispatcher goroutine; a sender waits until the
// count of its signal has grown (senders of the same signal are serialised, because pending identical
// signals coalesce).  When the harness has seen the signal, the runtime has also offered it to every
// other channel that was registered at that time, i.e. to the collector's.
var (
	sigMu    sync.Mutex
	sigCond  = sync.NewCond(&sigMu)
	sigCount = map[os.Signal]int{}
	sigSend  = map[string]*sync.Mutex{"sighup": {}, "sigterm": {}, "sigint": {}}
)

func sigDispatch() {
	for sg := range sigCh {
		sigMu.Lock()
		sigCount[sg]++
		sigCond.Broadcast()
		sigMu.Unlock()
	}
}

func (s *session) sendSignal(kind string, reg bool) {
	var sig os.Signal = syscall.SIGHUP
	if kind == "sigterm" {
		sig = syscall.SIGTERM
	}
	if kind == "sigint" {
		sig = syscall.SIGINT
	}
	sigSend[kind].Lock()
	defer sigSend[kind].Unlock()
	sigMu.Lock()
	n0 := sigCount[sig]
	sigMu.Unlock()
	s.rec.add("ext", "kind", kind, "reg", reg)
	_ = syscall.Kill(os.Getpid(), sig.(syscall.Signal))
	seen := make(chan struct{})
	go func() {
		sigMu.Lock()
		for sigCount[sig] == n0 {
			sigCond.Wait()
		}
		sigMu.Unlock()
		close(seen)
	}()
	select {
	case <-seen:
	case <-time.After(10 * time.Second):
		s.rec.add("skip", "kind", kind, "why", "signal not observed by the harness")
	}
	time.Sleep(time.Millisecond)
}

// ---------------------------------------------------------------- components

type compCfg struct {
	Gen int `mapstructure:"gen"`
}

func nameOf(id component.ID) string {
	switch id.Type().String() {
	case "vx":
		return "x"
	case "ve":
		return "e" + id.Name()
	case "vr":
		return "r" + id.Name()
	}
	return id.String()
}

func (s *session) create(id component.ID, cfg component.Config) (*comp, error) {
	g := cfg.(*compCfg).Gen
	n := nameOf(id)
	s.fire(key("create", g, n))
	s.mu.Lock()
	bad := s.fail[key("create", g, n)]
	s.mu.Unlock()
	if bad {
		s.rec.add("create", "gen", g, "comp", n, "err", true)
		return nil, errors.New("scripted create failure")
	}
	c := &comp{s: s, gen: g, name: n}
	s.mu.Lock()
	s.comps[key("c", g, n)] = c
	s.mu.Unlock()
	s.rec.add("create", "gen", g, "comp", n, "err", false)
	return c, nil
}

func (c *comp) Start(_ context.Context, host component.Host) error {
	s := c.s
	c.mu.Lock()
	c.host = host
	s.rec.add("start", "gen", c.gen, "comp", c.name)
	c.mu.Unlock()
	s.fire(key("start", c.gen, c.name))
	s.mu.Lock()
	bad := s.fail[key("start", c.gen, c.name)]
	s.mu.Unlock()
	s.rec.add("start_end", "gen", c.gen, "comp", c.name, "err", bad)
	if bad {
		return errors.New("scripted start failure")
	}
	return nil
}

func (c *comp) Shutdown(context.Context) error {
	s := c.s
	s.rec.add("shutdown", "gen", c.gen, "comp", c.name)
	s.fire(key("stop", c.gen, c.name))
	s.mu.Lock()
	bad := s.fail[key("stop", c.gen, c.name)]
	s.mu.Unlock()
	c.mu.Lock()
	c.stopped = true
	s.rec.add("shutdown_end", "gen", c.gen, "comp", c.name, "err", bad)
	c.mu.Unlock()
	if bad {
		return errors.New("scripted shutdown failure")
	}
	return nil
}

func (c *comp) Capabilities() consumer.Capabilities { return consumer.Capabilities{} }

func (c *comp) ConsumeLogs(context.Context, plog.Logs) error { return nil }

// ComponentStatusChanged makes the extension a status watcher: it is called by the status reporter
// while the reporter holds its mutex, immediately before a fatal error is handed to the collector.
type watcherExt struct{ *comp }

func (w watcherExt) ComponentStatusChanged(source *componentstatus.InstanceID, ev *componentstatus.Event) {
	if ev.Status() != componentstatus.StatusFatalError {
		return
	}
	s := w.s
	n := nameOf(source.ComponentID())
	s.rec.add("fatal_seen", "gen", w.gen, "comp", n)
	s.mu.Lock()
	ch := s.fatalSeen[key("c", w.gen, n)]
	delete(s.fatalSeen, key("c", w.gen, n))
	if w.gen > s.sureFatal {
		s.sureFatal = w.gen
	}
	s.mu.Unlock()
	if ch != nil {
		close(ch)
	}
}

func (s *session) factories() (otelcol.Factories, error) {
	def := func() component.Config { return &compCfg{} }
	var f otelcol.Factories
	var err error
	f.Extensions, err = otelcol.MakeFactoryMap[extension.Factory](extension.NewFactory(component.MustNewType("vx"), def,
		func(_ context.Context, set extension.Settings, cfg component.Config) (extension.Extension, error) {
			c, err := s.create(set.ID, cfg)
			if err != nil {
				return nil, err
			}
			return watcherExt{c}, nil
		}, component.StabilityLevelStable))
	if err != nil {
		return f, err
	}
	f.Exporters, err = otelcol.MakeFactoryMap[exporter.Factory](exporter.NewFactory(component.MustNewType("ve"), def,
		exporter.WithLogs(func(_ context.Context, set exporter.Settings, cfg component.Config) (exporter.Logs, error) {
			c, err := s.create(set.ID, cfg)
			if err != nil {
				return nil, err
			}
			return c, nil
		}, component.StabilityLevelStable)))
	if err != nil {
		return f, err
	}
	f.Receivers, err = otelcol.MakeFactoryMap[receiver.Factory](receiver.NewFactory(component.MustNewType("vr"), def,
		receiver.WithLogs(func(_ context.Context, set receiver.Settings, cfg component.Config, _ consumer.Logs) (receiver.Logs, error) {
			c, err := s.create(set.ID, cfg)
			if err != nil {
				return nil, err
			}
			return c, nil
		}, component.StabilityLevelStable)))
	return f, err
}

// ---------------------------------------------------------------- provider

type prov struct{ s *session }

func (p *prov) Scheme() string { return "mem" }

func (p *prov) Shutdown(context.Context) error {
	p.s.rec.add("prov_shutdown")
	p.s.fire("provsd")
	return nil
}

func (p *prov) Retrieve(_ context.Context, uri string, w confmap.WatcherFunc) (*confmap.Retrieved, error) {
	s := p.s
	if uri == "mem:aux" {
		s.mu.Lock()
		g := s.gen
		s.open["aux"] = w
		s.mu.Unlock()
		return confmap.NewRetrievedFromYAML([]byte("{}"), confmap.WithRetrievedClose(func(context.Context) error {
			s.mu.Lock()
			delete(s.open, "aux")
			s.mu.Unlock()
			s.rec.add("pclose", "gen", g, "src", "aux")
			return nil
		}))
	}
	s.mu.Lock()
	s.gen++
	g := s.gen
	if g >= 2 {
		s.sigReady = true // a reload happens only inside the select loop, after signal.Notify
	}
	s.open["main"] = w
	bad := s.fail[fmt.Sprintf("get:%d", g)]
	s.mu.Unlock()
	s.rec.add("retrieve", "gen", g, "broken", bad)
	s.fire(fmt.Sprintf("get:%d", g))
	return confmap.NewRetrievedFromYAML([]byte(s.yaml(g, bad)), confmap.WithRetrievedClose(func(context.Context) error {
		// the retrieval mem:main is closed first; mem:aux is still open (its Close has not been
		// called yet), so a change notification from it is within the provider contract here
		s.mu.Lock()
		delete(s.open, "main")
		s.mu.Unlock()
		s.rec.add("pclose", "gen", g, "src", "main")
		s.fire(fmt.Sprintf("pclose:%d", g))
		return nil
	}))
}

func (s *session) yaml(g int, broken bool) string {
	var rs, es []string
	var b strings.Builder
	b.WriteString("receivers:\n")
	for _, c := range s.sc.Comps {
		if c[0] == 'r' {
			fmt.Fprintf(&b, "  vr/%s: {gen: %d}\n", c[1:], g)
			rs = append(rs, "vr/"+c[1:])
		}
	}
	b.WriteString("exporters:\n")
	for _, c := range s.sc.Comps {
		if c[0] == 'e' {
			fmt.Fprintf(&b, "  ve/%s: {gen: %d}\n", c[1:], g)
			es = append(es, "ve/"+c[1:])
		}
	}
	if broken {
		es = append(es, "ve/undefined")
	}
	hasX := false
	for _, c := range s.sc.Comps {
		if c == "x" {
			hasX = true
		}
	}
	if hasX {
		fmt.Fprintf(&b, "extensions:\n  vx: {gen: %d}\n", g)
	}
	b.WriteString("service:\n  telemetry:\n    metrics: {level: none}\n    logs: {level: error}\n")
	if hasX {
		b.WriteString("  extensions: [vx]\n")
	}
	fmt.Fprintf(&b, "  pipelines:\n    logs:\n      receivers: [%s]\n      exporters: [%s]\n", strings.Join(rs, ", "), strings.Join(es, ", "))
	return b.String()
}

// ---------------------------------------------------------------- running one script

var reGoroutine = regexp.MustCompile(`(?m)^goroutine (\d+) \[([^\]]*)\]:`)

type gstack struct {
	id, state, text string
}

func allStacks() []gstack {
	buf := make([]byte, 1<<22)
	buf = buf[:runtime.Stack(buf, true)]
	var out []gstack
	for _, blk := range strings.Split(string(buf), "\n\n") {
		m := reGoroutine.FindStringSubmatch(blk)
		if m == nil {
			continue
		}
		out = append(out, gstack{m[1], m[2], blk})
	}
	return out
}

var reFrame = regexp.MustCompile(`(?m)^(\S+)\(`)

// diagnose describes where the run goroutine and the fatal-error reporters of this script are blocked.
func (s *session) diagnose() (sig string, detail []string) {
	s.mu.Lock()
	run := s.runGID
	reps := append([]string(nil), s.repGIDs...)
	s.mu.Unlock()
	isRep := map[string]bool{}
	for _, r := range reps {
		isRep[r] = true
	}
	runWhere, runState := "", ""
	senders := 0
	for _, g := range allStacks() {
		fr := reFrame.FindAllStringSubmatch(g.text, -1)
		var names []string
		for _, f := range fr {
			n := f[1]
			if i := strings.LastIndex(n, "/"); i >= 0 {
				n = n[i+1:]
			}
			names = append(names, n)
		}
		st := g.state
		if i := strings.Index(st, ","); i >= 0 {
			st = st[:i]
		}
		if g.id == run {
			runState = st
			var keep []string
			for _, n := range names {
				if strings.HasPrefix(n, "otelcol.") || strings.HasPrefix(n, "service.") || strings.HasPrefix(n, "graph.") ||
					strings.HasPrefix(n, "status.") || strings.HasPrefix(n, "extensions.") || strings.HasPrefix(n, "confmap.") {
					keep = append(keep, n)
				}
			}
			runWhere = strings.Join(keep, " < ")
			detail = append(detail, "run goroutine ["+st+"]: "+runWhere)
		}
		if isRep[g.id] {
			w := strings.Join(names, " < ")
			detail = append(detail, "reporter goroutine ["+st+"]: "+w)
			if st == "chan send" && strings.Contains(w, "graph.(*Host).NotifyComponentStatusChange") {
				senders++
			}
		}
	}
	switch {
	case senders > 0 && strings.Contains(runWhere, "status.(*reporter).Report") && strings.HasPrefix(runState, "sync.Mutex.Lock"):
		sig = "Host.NotifyComponentStatusChange blocked in chan send under the reporter mutex"
	case runWhere == "":
		sig = "run goroutine not found"
	default:
		first := runWhere
		if i := strings.Index(first, " < "); i >= 0 {
			first = first[:i]
		}
		sig = "run goroutine blocked in " + first + " [" + runState + "]"
	}
	return sig, detail
}

func (s *session) returned() bool {
	select {
	case <-s.runDone:
		return true
	default:
		return false
	}
}

// waitQuiet waits until the collector is Running and has consumed every reload trigger that the
// driver believes took effect (or nothing has happened for a while), or Run returned, or nothing
// moves for the whole watchdog period.  Returns "quiet", "returned" or "stuck".
func (s *session) waitQuiet() string {
	t0 := time.Now()
	shortcut := false
	for {
		if s.returned() {
			return "returned"
		}
		idle := s.rec.idleFor()
		if s.col.GetState() == otelcol.StateRunning {
			s.mu.Lock()
			ok := s.gen >= s.expectGen
			s.mu.Unlock()
			if ok && idle > 2*time.Millisecond {
				return "quiet"
			}
			if idle > 3*time.Second {
				return "quiet" // a trigger was absorbed or lost
			}
		} else if idle > s.watchdog && time.Since(t0) > s.watchdog {
			return "stuck"
		} else if idle > 2*time.Second && time.Since(t0) > 2*time.Second && !shortcut {
			shortcut = true
			if sig, _ := s.diagnose(); confirmed[sig] && structural(sig) {
				return "stuck"
			}
		}
		time.Sleep(500 * time.Microsecond)
	}
}

var confirmed = map[string]bool{} // hang signatures that already got the full watchdog in this process

// structural: the goroutine dump alone shows that waiting longer cannot help -- a deadlock between the
// run goroutine and a reporter, or the run goroutine parked in the select statement of Run (nothing in
// that select depends on time)
func structural(sig string) bool {
	return strings.HasPrefix(sig, "Host.") || strings.HasPrefix(sig, "run goroutine blocked in otelcol.(*Collector).Run [select")
}

// waitReturn waits for Run to return.  The full watchdog applies; a hang whose goroutine dump shows a
// structural deadlock that was already confirmed with the full bound in this process is accepted
// after a shorter bound (the dump is the proof, the first occurrence is the confirmation).
func (s *session) waitReturn() bool {
	t0 := time.Now()
	for time.Since(t0) < s.watchdog {
		select {
		case <-s.runDone:
			return true
		case <-time.After(250 * time.Millisecond):
		}
		if time.Since(t0) > 2*time.Second && time.Since(t0) < 2500*time.Millisecond {
			if sig, _ := s.diagnose(); confirmed[sig] && structural(sig) && s.rec.idleFor() > 2*time.Second {
				return false
			}
		}
	}
	return s.returned()
}

// hangs counts the confirmed structural hangs of this process per signature.  Once the same deadlock
// between a fatal-error reporter and the run loop has been shown maxSameHang times, further scripts
// that report a fatal error are not run (they are logged as skipped and the check says so): every one
// of them costs seconds and shows the same defect again.
var hangs = map[string]int{}

const maxSameHang = 8

func hasFatal(sc *Script) bool {
	for _, st := range sc.Steps {
		for _, in := range st.Ev {
			if in.K == "fatal" {
				return true
			}
		}
	}
	return false
}

func runScript(sc *Script, out *bufio.Writer, watchdog time.Duration) {
	rec := &recorder{out: out, last: time.Now()}
	began := time.Now()
	if hangs["Host.NotifyComponentStatusChange blocked in chan send under the reporter mutex"] >= maxSameHang && hasFatal(sc) {
		scb, _ := json.Marshal(sc)
		fmt.Fprintf(out, "{\"seq\":0,\"ev\":\"reset\",\"st\":\"NoCollector\",\"id\":%q,\"script\":%s}\n", sc.ID, scb)
		fmt.Fprintf(out, "{\"seq\":1,\"ev\":\"skipped\",\"st\":\"NoCollector\"}\n")
		return
	}
	s := &session{sc: sc, rec: rec, watchdog: watchdog, open: map[string]confmap.WatcherFunc{}, comps: map[string]*comp{},
		anch: map[string][]Step{}, fail: map[string]bool{}, fatalSeen: map[string]chan struct{}{}, expectGen: 1,
		runDone: make(chan struct{})}
	for _, f := range sc.Fail {
		s.fail[f] = true
	}
	var idle, pre, post []Step
	for _, st := range sc.Steps {
		switch st.At {
		case "idle":
			idle = append(idle, st)
		case "pre":
			pre = append(pre, st)
		case "post":
			post = append(post, st)
		default:
			s.anch[st.At] = append(s.anch[st.At], st)
		}
	}
	scb, _ := json.Marshal(sc)
	rec.mu.Lock()
	fmt.Fprintf(out, "{\"seq\":0,\"ev\":\"reset\",\"st\":\"NoCollector\",\"id\":%q,\"script\":%s}\n", sc.ID, scb)
	rec.mu.Unlock()

	nop := zap.WrapCore(func(zapcore.Core) zapcore.Core { return zapcore.NewNopCore() })
	col, err := otelcol.NewCollector(otelcol.CollectorSettings{
		BuildInfo:             component.NewDefaultBuildInfo(),
		Factories:             s.factories,
		LoggingOptions:        []zap.Option{nop},
		SkipSettingGRPCLogger: true,
		ConfigProviderSettings: otelcol.ConfigProviderSettings{ResolverSettings: confmap.ResolverSettings{
			URIs: []string{"mem:main", "mem:aux"},
			ProviderFactories: []confmap.ProviderFactory{confmap.NewProviderFactory(func(confmap.ProviderSettings) confmap.Provider {
				return &prov{s}
			})},
		}},
	})
	if err != nil {
		rec.add("harness_error", "text", err.Error())
		return
	}
	s.col = col
	rec.mu.Lock()
	rec.col = col
	rec.mu.Unlock()
	s.ctx, s.cancel = context.WithCancel(context.Background())
	defer s.cancel()
	rec.add("new")

	for _, st := range pre {
		s.injectStep(st)
	}
	go func() {
		s.mu.Lock()
		s.runGID = gid()
		s.mu.Unlock()
		rec.add("run")
		err := col.Run(s.ctx)
		if err != nil {
			rec.add("run_return", "err", true, "text", err.Error())
		} else {
			rec.add("run_return", "err", false, "text", "")
		}
		close(s.runDone)
	}()

	stuck := false
	first := true
	for _, st := range idle {
		q := s.waitQuiet()
		if q == "returned" {
			break
		}
		if q == "stuck" {
			stuck = true
			break
		}
		if first {
			// Run registers its signal handlers right after the first transition to Running
			time.Sleep(5 * time.Millisecond)
			first = false
		}
		s.mu.Lock()
		s.sigReady = true
		s.mu.Unlock()
		rec.add("idle")
		s.injectStep(st)
	}
	// the end: Run must return once a stop reason is outstanding
	ok := false
	if !stuck {
		switch s.waitQuiet() {
		case "returned":
			ok = true
		case "quiet":
			s.mu.Lock()
			sure := s.sure || s.ctx.Err() != nil || (s.sureFatal > 0 && s.sureFatal == s.gen)
			s.mu.Unlock()
			if !sure {
				// nothing the driver injected is certain to stop the run: ask for shutdown now
				rec.add("idle")
				s.inject(Inj{K: "shutdown", N: 1})
			}
			ok = s.waitReturn()
		}
	}
	if !ok {
		sig, detail := s.diagnose()
		confirmed[sig] = true
		hangs[sig]++
		idle := rec.idleFor()
		// waited_s: time without any event when the driver gave up; less than the watchdog only when a
		// goroutine dump with the same structural signature had already got the full bound in this process
		rec.add("timeout", "sig", sig, "detail", detail, "waited_s", int(idle.Seconds()), "watchdog_s", int(watchdog.Seconds()))
		// try to get rid of it; whatever happens now is not part of the verdict
		func() {
			defer func() { _ = recover() }()
			col.Shutdown()
		}()
		s.cancel()
		select {
		case <-s.runDone:
			rec.add("late_return")
		case <-time.After(500 * time.Millisecond):
		}
		rec.add("end", "ms", time.Since(began).Milliseconds())
		return
	}
	for _, st := range post {
		s.injectStep(st)
	}
	s.inject(Inj{K: "shutdown", N: 4}) // Shutdown() after Closed must be harmless
	// late notifiers / reporters of this script get a moment to finish (they may be blocked for good)
	time.Sleep(time.Millisecond)
	rec.add("end", "ms", time.Since(began).Milliseconds())
}

func main() {
	if len(os.Args) < 4 || os.Args[1] != "run" {
		fmt.Fprintln(os.Stderr, "usage: c20 run <scripts.ndjson> <trace.ndjson> [watchdog-seconds]")
		os.Exit(2)
	}
	wd := 20
	if len(os.Args) > 4 {
		wd, _ = strconv.Atoi(os.Args[4])
	}
	signal.Notify(sigCh, syscall.SIGHUP, syscall.SIGTERM, syscall.SIGINT) // never stopped: the default action cannot fire
	go sigDispatch()
	in, err := os.Open(os.Args[2])
	if err != nil {
		fmt.Fprintln(os.Stderr, err)
		os.Exit(2)
	}
	defer in.Close()
	of, err := os.Create(os.Args[3])
	if err != nil {
		fmt.Fprintln(os.Stderr, err)
		os.Exit(2)
	}
	out := bufio.NewWriterSize(of, 1<<20)
	scn := bufio.NewScanner(in)
	scn.Buffer(make([]byte, 1<<20), 1<<26)
	n := 0
	for scn.Scan() {
		if len(strings.TrimSpace(scn.Text())) == 0 {
			continue
		}
		var sc Script
		if err := json.Unmarshal(scn.Bytes(), &sc); err != nil {
			fmt.Fprintf(os.Stderr, "script %d: %v\n", n+1, err)
			os.Exit(2)
		}
		runScript(&sc, out, time.Duration(wd)*time.Second)
		out.Flush()
		n++
	}
	out.Flush()
	of.Close()
	fmt.Printf("{\"scripts\":%d}\n", n)
}
