module go.opentelemetry.io/collector/otelcol/verifh

go 1.23.0

require (
	go.opentelemetry.io/collector/component v1.30.0
	go.opentelemetry.io/collector/component/componentstatus v0.124.0
	go.opentelemetry.io/collector/confmap v1.30.0
	go.opentelemetry.io/collector/consumer v1.30.0
	go.opentelemetry.io/collector/exporter v0.124.0
	go.opentelemetry.io/collector/extension v1.30.0
	go.opentelemetry.io/collector/otelcol v0.124.0
	go.opentelemetry.io/collector/pdata v1.30.0
	go.opentelemetry.io/collector/receiver v1.30.0
	go.opentelemetry.io/collector/service v0.124.0
	go.uber.org/zap v1.27.0
)

require (
	github.com/beorn7/perks v1.0.1 // indirect
	github.com/cenkalti/backoff/v4 v4.3.0 // indirect
	github.com/cespare/xxhash/v2 v2.3.0 // indirect
	github.com/davecgh/go-spew v1.1.1 // indirect
	github.com/go-logr/logr v1.4.2 // indirect
	github.com/go-logr/stdr v1.2.2 // indirect
	github.com/go-viper/mapstructure/v2 v2.2.1 // indirect
	github.com/gogo/protobuf v1.3.2 // indirect
	github.com/google/uuid v1.6.0 // indirect
	github.com/grpc-ecosystem/grpc-gateway/v2 v2.26.1 // indirect
	github.com/hashicorp/go-version v1.7.0 // indirect
	github.com/json-iterator/go v1.1.12 // indirect
	github.com/klauspost/compress v1.18.0 // indirect
	github.com/knadh/koanf/maps v0.1.2 // indirect
	github.com/knadh/koanf/providers/confmap v1.0.0 // indirect
	github.com/knadh/koanf/v2 v2.2.0 // indirect
	github.com/mitchellh/copystructure v1.2.0 // indirect
	github.com/mitchellh/reflectwalk v1.0.2 // indirect
	github.com/modern-go/concurrent v0.0.0-20180306012644-bacd9c7ef1dd // indirect
	github.com/modern-go/reflect2 v1.0.2 // indirect
	github.com/munnerz/goautoneg v0.0.0-20191010083416-a7dc8b61c822 // indirect
	github.com/pmezard/go-difflib v1.0.0 // indirect
	github.com/prometheus/client_golang v1.21.1 // indirect
	github.com/prometheus/client_model v0.6.1 // indirect
	github.com/prometheus/common v0.62.0 // indirect
	github.com/prometheus/procfs v0.15.1 // indirect
	github.com/shirou/gopsutil/v4 v4.25.3 // indirect
	github.com/spf13/cobra v1.9.1 // indirect
	github.com/spf13/pflag v1.0.6 // indirect
	github.com/stretchr/testify v1.10.0 // indirect
	github.com/tklauser/go-sysconf v0.3.12 // indirect
	github.com/tklauser/numcpus v0.6.1 // indirect
	go.opentelemetry.io/auto/sdk v1.1.0 // indirect
	go.opentelemetry.io/collector/component/componenttest v0.124.0 // indirect
	go.opentelemetry.io/collector/config/configtelemetry v0.124.0 // indirect
	go.opentelemetry.io/collector/confmap/xconfmap v0.124.0 // indirect
	go.opentelemetry.io/collector/connector v0.124.0 // indirect
	go.opentelemetry.io/collector/connector/connectortest v0.124.0 // indirect
	go.opentelemetry.io/collector/connector/xconnector v0.124.0 // indirect
	go.opentelemetry.io/collector/consumer/consumererror v0.124.0 // indirect
	go.opentelemetry.io/collector/consumer/consumertest v0.124.0 // indirect
	go.opentelemetry.io/collector/consumer/xconsumer v0.124.0 // indirect
	go.opentelemetry.io/collector/exporter/exportertest v0.124.0 // indirect
	go.opentelemetry.io/collector/exporter/xexporter v0.124.0 // indirect
	go.opentelemetry.io/collector/extension/extensioncapabilities v0.124.0 // indirect
	go.opentelemetry.io/collector/extension/extensiontest v0.124.0 // indirect
	go.opentelemetry.io/collector/featuregate v1.30.0 // indirect
	go.opentelemetry.io/collector/internal/fanoutconsumer v0.124.0 // indirect
	go.opentelemetry.io/collector/internal/telemetry v0.124.0 // indirect
	go.opentelemetry.io/collector/pdata/pprofile v0.124.0 // indirect
	go.opentelemetry.io/collector/pdata/testdata v0.124.0 // indirect
	go.opentelemetry.io/collector/pipeline v0.124.0 // indirect
	go.opentelemetry.io/collector/pipeline/xpipeline v0.124.0 // indirect
	go.opentelemetry.io/collector/processor v1.30.0 // indirect
	go.opentelemetry.io/collector/processor/processortest v0.124.0 // indirect
	go.opentelemetry.io/collector/processor/xprocessor v0.124.0 // indirect
	go.opentelemetry.io/collector/receiver/receivertest v0.124.0 // indirect
	go.opentelemetry.io/collector/receiver/xreceiver v0.124.0 // indirect
	go.opentelemetry.io/collector/semconv v0.124.0 // indirect
	go.opentelemetry.io/collector/service/hostcapabilities v0.124.0 // indirect
	go.opentelemetry.io/contrib/bridges/otelzap v0.10.0 // indirect
	go.opentelemetry.io/contrib/otelconf v0.15.0 // indirect
	go.opentelemetry.io/contrib/propagators/b3 v1.35.0 // indirect
	go.opentelemetry.io/otel v1.35.0 // indirect
	go.opentelemetry.io/otel/exporters/otlp/otlplog/otlploggrpc v0.11.0 // indirect
	go.opentelemetry.io/otel/exporters/otlp/otlplog/otlploghttp v0.11.0 // indirect
	go.opentelemetry.io/otel/exporters/otlp/otlpmetric/otlpmetricgrpc v1.35.0 // indirect
	go.opentelemetry.io/otel/exporters/otlp/otlpmetric/otlpmetrichttp v1.35.0 // indirect
	go.opentelemetry.io/otel/exporters/otlp/otlptrace v1.35.0 // indirect
	go.opentelemetry.io/otel/exporters/otlp/otlptrace/otlptracegrpc v1.35.0 // indirect
	go.opentelemetry.io/otel/exporters/otlp/otlptrace/otlptracehttp v1.35.0 // indirect
	go.opentelemetry.io/otel/exporters/prometheus v0.57.0 // indirect
	go.opentelemetry.io/otel/exporters/stdout/stdoutlog v0.11.0 // indirect
	go.opentelemetry.io/otel/exporters/stdout/stdoutmetric v1.35.0 // indirect
	go.opentelemetry.io/otel/exporters/stdout/stdouttrace v1.35.0 // indirect
	go.opentelemetry.io/otel/log v0.11.0 // indirect
	go.opentelemetry.io/otel/metric v1.35.0 // indirect
	go.opentelemetry.io/otel/sdk v1.35.0 // indirect
	go.opentelemetry.io/otel/sdk/log v0.11.0 // indirect
	go.opentelemetry.io/otel/sdk/metric v1.35.0 // indirect
	go.opentelemetry.io/otel/trace v1.35.0 // indirect
	go.opentelemetry.io/proto/otlp v1.5.0 // indirect
	go.uber.org/multierr v1.11.0 // indirect
	golang.org/x/exp v0.0.0-20240506185415-9bf2ced13842 // indirect
	golang.org/x/net v0.39.0 // indirect
	golang.org/x/sys v0.32.0 // indirect
	golang.org/x/text v0.24.0 // indirect
	gonum.org/v1/gonum v0.16.0 // indirect
	google.golang.org/genproto/googleapis/api v0.0.0-20250218202821-56aae31c358a // indirect
	google.golang.org/genproto/googleapis/rpc v0.0.0-20250218202821-56aae31c358a // indirect
	google.golang.org/grpc v1.71.1 // indirect
	google.golang.org/protobuf v1.36.6 // indirect
	gopkg.in/yaml.v3 v3.0.1 // indirect
	sigs.k8s.io/yaml v1.4.0 // indirect
)

replace (
	go.opentelemetry.io/collector => /tmp/wt-C20
	go.opentelemetry.io/collector/client => /tmp/wt-C20/client
	go.opentelemetry.io/collector/cmd/builder => /tmp/wt-C20/cmd/builder
	go.opentelemetry.io/collector/cmd/mdatagen => /tmp/wt-C20/cmd/mdatagen
	go.opentelemetry.io/collector/cmd/otelcorecol => /tmp/wt-C20/cmd/otelcorecol
	go.opentelemetry.io/collector/component => /tmp/wt-C20/component
	go.opentelemetry.io/collector/component/componentstatus => /tmp/wt-C20/component/componentstatus
	go.opentelemetry.io/collector/component/componenttest => /tmp/wt-C20/component/componenttest
	go.opentelemetry.io/collector/config/configauth => /tmp/wt-C20/config/configauth
	go.opentelemetry.io/collector/config/configcompression => /tmp/wt-C20/config/configcompression
	go.opentelemetry.io/collector/config/configgrpc => /tmp/wt-C20/config/configgrpc
	go.opentelemetry.io/collector/config/confighttp => /tmp/wt-C20/config/confighttp
	go.opentelemetry.io/collector/config/confighttp/xconfighttp => /tmp/wt-C20/config/confighttp/xconfighttp
	go.opentelemetry.io/collector/config/configmiddleware => /tmp/wt-C20/config/configmiddleware
	go.opentelemetry.io/collector/config/confignet => /tmp/wt-C20/config/confignet
	go.opentelemetry.io/collector/config/configopaque => /tmp/wt-C20/config/configopaque
	go.opentelemetry.io/collector/config/configretry => /tmp/wt-C20/config/configretry
	go.opentelemetry.io/collector/config/configtelemetry => /tmp/wt-C20/config/configtelemetry
	go.opentelemetry.io/collector/config/configtls => /tmp/wt-C20/config/configtls
	go.opentelemetry.io/collector/confmap => /tmp/wt-C20/confmap
	go.opentelemetry.io/collector/confmap/internal/e2e => /tmp/wt-C20/confmap/internal/e2e
	go.opentelemetry.io/collector/confmap/provider/envprovider => /tmp/wt-C20/confmap/provider/envprovider
	go.opentelemetry.io/collector/confmap/provider/fileprovider => /tmp/wt-C20/confmap/provider/fileprovider
	go.opentelemetry.io/collector/confmap/provider/httpprovider => /tmp/wt-C20/confmap/provider/httpprovider
	go.opentelemetry.io/collector/confmap/provider/httpsprovider => /tmp/wt-C20/confmap/provider/httpsprovider
	go.opentelemetry.io/collector/confmap/provider/yamlprovider => /tmp/wt-C20/confmap/provider/yamlprovider
	go.opentelemetry.io/collector/confmap/xconfmap => /tmp/wt-C20/confmap/xconfmap
	go.opentelemetry.io/collector/connector => /tmp/wt-C20/connector
	go.opentelemetry.io/collector/connector/connectortest => /tmp/wt-C20/connector/connectortest
	go.opentelemetry.io/collector/connector/forwardconnector => /tmp/wt-C20/connector/forwardconnector
	go.opentelemetry.io/collector/connector/xconnector => /tmp/wt-C20/connector/xconnector
	go.opentelemetry.io/collector/consumer => /tmp/wt-C20/consumer
	go.opentelemetry.io/collector/consumer/consumererror => /tmp/wt-C20/consumer/consumererror
	go.opentelemetry.io/collector/consumer/consumererror/xconsumererror => /tmp/wt-C20/consumer/consumererror/xconsumererror
	go.opentelemetry.io/collector/consumer/consumertest => /tmp/wt-C20/consumer/consumertest
	go.opentelemetry.io/collector/consumer/xconsumer => /tmp/wt-C20/consumer/xconsumer
	go.opentelemetry.io/collector/exporter => /tmp/wt-C20/exporter
	go.opentelemetry.io/collector/exporter/debugexporter => /tmp/wt-C20/exporter/debugexporter
	go.opentelemetry.io/collector/exporter/exporterhelper/xexporterhelper => /tmp/wt-C20/exporter/exporterhelper/xexporterhelper
	go.opentelemetry.io/collector/exporter/exportertest => /tmp/wt-C20/exporter/exportertest
	go.opentelemetry.io/collector/exporter/nopexporter => /tmp/wt-C20/exporter/nopexporter
	go.opentelemetry.io/collector/exporter/otlpexporter => /tmp/wt-C20/exporter/otlpexporter
	go.opentelemetry.io/collector/exporter/otlphttpexporter => /tmp/wt-C20/exporter/otlphttpexporter
	go.opentelemetry.io/collector/exporter/xexporter => /tmp/wt-C20/exporter/xexporter
	go.opentelemetry.io/collector/extension => /tmp/wt-C20/extension
	go.opentelemetry.io/collector/extension/extensionauth => /tmp/wt-C20/extension/extensionauth
	go.opentelemetry.io/collector/extension/extensionauth/extensionauthtest => /tmp/wt-C20/extension/extensionauth/extensionauthtest
	go.opentelemetry.io/collector/extension/extensioncapabilities => /tmp/wt-C20/extension/extensioncapabilities
	go.opentelemetry.io/collector/extension/extensionmiddleware => /tmp/wt-C20/extension/extensionmiddleware
	go.opentelemetry.io/collector/extension/extensionmiddleware/extensionmiddlewaretest => /tmp/wt-C20/extension/extensionmiddleware/extensionmiddlewaretest
	go.opentelemetry.io/collector/extension/extensiontest => /tmp/wt-C20/extension/extensiontest
	go.opentelemetry.io/collector/extension/memorylimiterextension => /tmp/wt-C20/extension/memorylimiterextension
	go.opentelemetry.io/collector/extension/xextension => /tmp/wt-C20/extension/xextension
	go.opentelemetry.io/collector/extension/zpagesextension => /tmp/wt-C20/extension/zpagesextension
	go.opentelemetry.io/collector/featuregate => /tmp/wt-C20/featuregate
	go.opentelemetry.io/collector/filter => /tmp/wt-C20/filter
	go.opentelemetry.io/collector/internal/e2e => /tmp/wt-C20/internal/e2e
	go.opentelemetry.io/collector/internal/fanoutconsumer => /tmp/wt-C20/internal/fanoutconsumer
	go.opentelemetry.io/collector/internal/memorylimiter => /tmp/wt-C20/internal/memorylimiter
	go.opentelemetry.io/collector/internal/sharedcomponent => /tmp/wt-C20/internal/sharedcomponent
	go.opentelemetry.io/collector/internal/telemetry => /tmp/wt-C20/internal/telemetry
	go.opentelemetry.io/collector/internal/tools => /tmp/wt-C20/internal/tools
	go.opentelemetry.io/collector/otelcol => /tmp/wt-C20/otelcol
	go.opentelemetry.io/collector/otelcol/otelcoltest => /tmp/wt-C20/otelcol/otelcoltest
	go.opentelemetry.io/collector/pdata => /tmp/wt-C20/pdata
	go.opentelemetry.io/collector/pdata/pprofile => /tmp/wt-C20/pdata/pprofile
	go.opentelemetry.io/collector/pipeline => /tmp/wt-C20/pipeline
	go.opentelemetry.io/collector/pipeline/xpipeline => /tmp/wt-C20/pipeline/xpipeline
	go.opentelemetry.io/collector/processor => /tmp/wt-C20/processor
	go.opentelemetry.io/collector/processor/batchprocessor => /tmp/wt-C20/processor/batchprocessor
	go.opentelemetry.io/collector/processor/memorylimiterprocessor => /tmp/wt-C20/processor/memorylimiterprocessor
	go.opentelemetry.io/collector/processor/processorhelper => /tmp/wt-C20/processor/processorhelper
	go.opentelemetry.io/collector/processor/processorhelper/xprocessorhelper => /tmp/wt-C20/processor/processorhelper/xprocessorhelper
	go.opentelemetry.io/collector/processor/processortest => /tmp/wt-C20/processor/processortest
	go.opentelemetry.io/collector/processor/xprocessor => /tmp/wt-C20/processor/xprocessor
	go.opentelemetry.io/collector/receiver => /tmp/wt-C20/receiver
	go.opentelemetry.io/collector/receiver/nopreceiver => /tmp/wt-C20/receiver/nopreceiver
	go.opentelemetry.io/collector/receiver/otlpreceiver => /tmp/wt-C20/receiver/otlpreceiver
	go.opentelemetry.io/collector/receiver/receiverhelper => /tmp/wt-C20/receiver/receiverhelper
	go.opentelemetry.io/collector/receiver/receivertest => /tmp/wt-C20/receiver/receivertest
	go.opentelemetry.io/collector/receiver/xreceiver => /tmp/wt-C20/receiver/xreceiver
	go.opentelemetry.io/collector/scraper => /tmp/wt-C20/scraper
	go.opentelemetry.io/collector/scraper/scraperhelper => /tmp/wt-C20/scraper/scraperhelper
	go.opentelemetry.io/collector/scraper/scrapertest => /tmp/wt-C20/scraper/scrapertest
	go.opentelemetry.io/collector/semconv => /tmp/wt-C20/semconv
	go.opentelemetry.io/collector/service => /tmp/wt-C20/service
	go.opentelemetry.io/collector/service/hostcapabilities => /tmp/wt-C20/service/hostcapabilities
)

replace go.opentelemetry.io/collector/pdata/testdata => /tmp/wt-C20/pdata/testdata
