// Conformance driver for C19 (receiver / scraper / processor helper ledgers).
//
//	obs replay <behaviours.ndjson> <result.json>
//
// Every behaviour is a TLC-generated sequence of helper operations with the specified ledger after each step; it is
// replayed into the REAL helpers (receiverhelper.ObsReport, scraperhelper.New{Metrics,Logs}Controller with their obs
// wrappers, processorhelper.New{Logs,Traces,Metrics}) sharing one telemetry, and the real counters are read from a
// manual metric reader after every step.
package main

import (
	nooptrace "go.opentelemetry.io/otel/trace/noop"
	"bufio"
	"context"
	"encoding/json"
	"errors"
	"fmt"
	"os"
	"sync"
	"time"

	"go.opentelemetry.io/otel/attribute"
	"go.opentelemetry.io/otel/sdk/metric/metricdata"

	"go.opentelemetry.io/collector/component"
	"go.opentelemetry.io/collector/component/componenttest"
	"go.opentelemetry.io/collector/consumer"
	"go.opentelemetry.io/collector/pdata/plog"
	"go.opentelemetry.io/collector/pdata/pmetric"
	"go.opentelemetry.io/collector/pdata/ptrace"
	"go.opentelemetry.io/collector/processor"
	"go.opentelemetry.io/collector/processor/processorhelper"
	"go.opentelemetry.io/collector/receiver"
	"go.opentelemetry.io/collector/receiver/receiverhelper"
	"go.opentelemetry.io/collector/scraper"
	"go.opentelemetry.io/collector/scraper/scrapererror"
	"go.opentelemetry.io/collector/scraper/scraperhelper"
)

type Snap struct {
	Led     map[string]map[string]int64 `json:"led"`
	Scraped int64                       `json:"scraped"`
	Errored int64                       `json:"errored"`
}

type Step struct {
	Op    string `json:"op"`
	Sig   string `json:"sig"`
	N     int    `json:"n"`
	OK    bool   `json:"ok"`
	M     int    `json:"m"`
	Mode  string `json:"mode"`
	After Snap   `json:"after"`
}

type Mismatch struct {
	Beh   int    `json:"beh"`
	Step  int    `json:"step"`
	Want  Snap   `json:"want"`
	Got   Snap   `json:"got"`
	Steps []Step `json:"steps"`
}

var errDown = errors.New("scripted downstream failure")

func mkLogs(n int) plog.Logs {
	ld := plog.NewLogs()
	sl := ld.ResourceLogs().AppendEmpty().ScopeLogs().AppendEmpty()
	for i := 0; i < n; i++ {
		sl.LogRecords().AppendEmpty().Body().SetStr("x")
	}
	return ld
}

func mkTraces(n int) ptrace.Traces {
	td := ptrace.NewTraces()
	ss := td.ResourceSpans().AppendEmpty().ScopeSpans().AppendEmpty()
	for i := 0; i < n; i++ {
		ss.Spans().AppendEmpty().SetName("x")
	}
	return td
}

func mkMetrics(n int) pmetric.Metrics {
	md := pmetric.NewMetrics()
	sm := md.ResourceMetrics().AppendEmpty().ScopeMetrics().AppendEmpty()
	for i := 0; i < n; i++ {
		m := sm.Metrics().AppendEmpty()
		m.SetName("m")
		m.SetEmptyGauge().DataPoints().AppendEmpty().SetIntValue(1)
	}
	return md
}

func sum(tel *componenttest.Telemetry, name string, attrKey, attrVal string) int64 {
	m, err := tel.GetMetric(name)
	if err != nil {
		return 0
	}
	s, ok := m.Data.(metricdata.Sum[int64])
	if !ok {
		return 0
	}
	var t int64
	for _, dp := range s.DataPoints {
		if attrKey != "" {
			v, has := dp.Attributes.Value(attributeKey(attrKey))
			if !has || v.AsString() != attrVal {
				continue
			}
		}
		t += dp.Value
	}
	return t
}

func readSnap(tel *componenttest.Telemetry) Snap {
	s := Snap{Led: map[string]map[string]int64{"accepted": {}, "refused": {}, "incoming": {}, "outgoing": {}}}
	names := map[string]string{"traces": "spans", "metrics": "metric_points", "logs": "log_records"}
	for sig, suffix := range names {
		s.Led["accepted"][sig] = sum(tel, "otelcol_receiver_accepted_"+suffix, "", "")
		s.Led["refused"][sig] = sum(tel, "otelcol_receiver_refused_"+suffix, "", "")
		s.Led["incoming"][sig] = sum(tel, "otelcol_processor_incoming_items", "otel.signal", sig)
		s.Led["outgoing"][sig] = sum(tel, "otelcol_processor_outgoing_items", "otel.signal", sig)
	}
	s.Scraped = sum(tel, "otelcol_scraper_scraped_metric_points", "", "")
	s.Errored = sum(tel, "otelcol_scraper_errored_metric_points", "", "")
	return s
}

func equal(a, b Snap) bool {
	if a.Scraped != b.Scraped || a.Errored != b.Errored {
		return false
	}
	for c, m := range a.Led {
		for s, v := range m {
			if b.Led[c][s] != v {
				return false
			}
		}
	}
	return true
}

func runBeh(idx int, steps []Step) []*Mismatch {
	tel := componenttest.NewTelemetry()
	defer func() { _ = tel.Shutdown(context.Background()) }()
	ts := tel.NewTelemetrySettings()
	if idx%3 == 1 {
		// the collector's own traces switched off (service::telemetry::traces::level none): a no-op TracerProvider, whose spans
		// have no valid span context, next to a real MeterProvider.  The item counters do not depend on tracing (seeded
		// change C19-7 returned early from the end-of-operation bookkeeping when the span context was invalid).
		ts.TracerProvider = nooptrace.NewTracerProvider()
	}
	rset := receiver.Settings{ID: component.MustNewID("vrecv"), TelemetrySettings: ts, BuildInfo: component.NewDefaultBuildInfo()}
	pset := processor.Settings{ID: component.MustNewID("vproc"), TelemetrySettings: ts, BuildInfo: component.NewDefaultBuildInfo()}
	obs, err := receiverhelper.NewObsReport(receiverhelper.ObsReportSettings{ReceiverID: rset.ID, Transport: "test", ReceiverCreateSettings: rset})
	if err != nil {
		return []*Mismatch{{Beh: idx, Step: -1, Steps: steps}}
	}
	ctx := context.Background()
	var out []*Mismatch
	prevWant, prevGot := readSnap(tel), readSnap(tel)
	for k, st := range steps {
		var down error
		if !st.OK {
			down = errDown
		}
		// every other step the consumer behind the helper is one that declares MutatesData and takes the payload
		// away before it returns (what a batching or queueing consumer does): the helper owns nothing after the
		// hand-over, its ledger must have been computed from what it handed over
		greedy := (idx+k)%2 == 1
		switch st.Op {
		case "recv":
			switch st.Sig {
			case "traces":
				c := obs.StartTracesOp(ctx)
				obs.EndTracesOp(c, "fmt", st.N, down)
			case "metrics":
				c := obs.StartMetricsOp(ctx)
				obs.EndMetricsOp(c, "fmt", st.N, down)
			case "logs":
				c := obs.StartLogsOp(ctx)
				obs.EndLogsOp(c, "fmt", st.N, down)
			}
		case "ctl":
			if err := runCtl(rset, st, down, greedy); err != nil {
				return append(out, &Mismatch{Beh: idx, Step: k, Steps: steps, Got: Snap{Led: map[string]map[string]int64{"error": {err.Error(): 1}}}})
			}
		case "proc":
			fnErr := error(nil)
			switch st.Mode {
			case "err":
				fnErr = errors.New("scripted processing failure")
			case "skip":
				fnErr = processorhelper.ErrSkipProcessingData
			}
			nout := st.N
			if st.Mode == "drop1" {
				nout = st.N - 1
			}
			switch st.Sig {
			case "logs":
				next, _ := consumer.NewLogs(func(_ context.Context, ld plog.Logs) error { takeLogs(greedy, ld); return down }, caps(greedy))
				p, err := processorhelper.NewLogs(ctx, pset, struct{}{}, next, func(_ context.Context, _ plog.Logs) (plog.Logs, error) {
					return mkLogs(nout), fnErr
				})
				if err == nil {
					_ = p.ConsumeLogs(ctx, mkLogs(st.N))
				}
			case "traces":
				next, _ := consumer.NewTraces(func(_ context.Context, td ptrace.Traces) error { takeTraces(greedy, td); return down }, caps(greedy))
				p, err := processorhelper.NewTraces(ctx, pset, struct{}{}, next, func(_ context.Context, _ ptrace.Traces) (ptrace.Traces, error) {
					return mkTraces(nout), fnErr
				})
				if err == nil {
					_ = p.ConsumeTraces(ctx, mkTraces(st.N))
				}
			case "metrics":
				next, _ := consumer.NewMetrics(func(_ context.Context, md pmetric.Metrics) error { takeMetrics(greedy, md); return down }, caps(greedy))
				p, err := processorhelper.NewMetrics(ctx, pset, struct{}{}, next, func(_ context.Context, _ pmetric.Metrics) (pmetric.Metrics, error) {
					return mkMetrics(nout), fnErr
				})
				if err == nil {
					_ = p.ConsumeMetrics(ctx, mkMetrics(st.N))
				}
			}
		}
		// compare what THIS step added (so that one deviating step does not hide the following ones)
		got := readSnap(tel)
		dw, dg := diff(st.After, prevWant), diff(got, prevGot)
		if !equal(dw, dg) {
			out = append(out, &Mismatch{Beh: idx, Step: k, Want: dw, Got: dg, Steps: steps})
		}
		prevWant, prevGot = st.After, got
	}
	return out
}

func diff(a, b Snap) Snap {
	d := Snap{Led: map[string]map[string]int64{}, Scraped: a.Scraped - b.Scraped, Errored: a.Errored - b.Errored}
	for c, m := range a.Led {
		d.Led[c] = map[string]int64{}
		for s, v := range m {
			d.Led[c][s] = v - b.Led[c][s]
		}
	}
	return d
}

// runCtl performs exactly one scrape of a real scraper controller (the initial scrape at Start) and stops it.
func caps(greedy bool) consumer.Option {
	return consumer.WithCapabilities(consumer.Capabilities{MutatesData: greedy})
}

func takeLogs(greedy bool, ld plog.Logs) {
	if greedy {
		ld.ResourceLogs().MoveAndAppendTo(plog.NewLogs().ResourceLogs())
	}
}

func takeTraces(greedy bool, td ptrace.Traces) {
	if greedy {
		td.ResourceSpans().MoveAndAppendTo(ptrace.NewTraces().ResourceSpans())
	}
}

func takeMetrics(greedy bool, md pmetric.Metrics) {
	if greedy {
		md.ResourceMetrics().MoveAndAppendTo(pmetric.NewMetrics().ResourceMetrics())
	}
}

func runCtl(rset receiver.Settings, st Step, down error, greedy bool) error {
	called := make(chan struct{}, 4)
	var scrapeErr error
	switch st.Mode {
	case "fail":
		scrapeErr = errors.New("scripted scrape failure")
	case "partial":
		scrapeErr = scrapererror.NewPartialScrapeError(errors.New("scripted partial failure"), st.M)
	}
	cfg := scraperhelper.NewDefaultControllerConfig()
	cfg.CollectionInterval = time.Hour
	cfg.InitialDelay = 0
	tick := make(chan time.Time)
	var start func(context.Context, component.Host) error
	var stop func(context.Context) error
	typ := component.MustNewType("vscr")
	switch st.Sig {
	case "metrics":
		next, _ := consumer.NewMetrics(func(_ context.Context, md pmetric.Metrics) error {
			takeMetrics(greedy, md)
			called <- struct{}{}
			return down
		}, caps(greedy))
		f := scraper.NewFactory(typ, func() component.Config { return struct{}{} },
			scraper.WithMetrics(func(context.Context, scraper.Settings, component.Config) (scraper.Metrics, error) {
				return scraper.NewMetrics(func(context.Context) (pmetric.Metrics, error) { return mkMetrics(st.N), scrapeErr })
			}, component.StabilityLevelAlpha))
		r, err := scraperhelper.NewMetricsController(&cfg, rset, next, scraperhelper.AddFactoryWithConfig(f, struct{}{}), scraperhelper.WithTickerChannel(tick))
		if err != nil {
			return err
		}
		start, stop = r.Start, r.Shutdown
	case "logs":
		next, _ := consumer.NewLogs(func(_ context.Context, ld plog.Logs) error {
			takeLogs(greedy, ld)
			called <- struct{}{}
			return down
		}, caps(greedy))
		f := scraper.NewFactory(typ, func() component.Config { return struct{}{} },
			scraper.WithLogs(func(context.Context, scraper.Settings, component.Config) (scraper.Logs, error) {
				return scraper.NewLogs(func(context.Context) (plog.Logs, error) { return mkLogs(st.N), scrapeErr })
			}, component.StabilityLevelAlpha))
		r, err := scraperhelper.NewLogsController(&cfg, rset, next, scraperhelper.AddFactoryWithConfig(f, struct{}{}), scraperhelper.WithTickerChannel(tick))
		if err != nil {
			return err
		}
		start, stop = r.Start, r.Shutdown
	default:
		return fmt.Errorf("no controller for %s", st.Sig)
	}
	if err := start(context.Background(), componenttest.NewNopHost()); err != nil {
		return err
	}
	select {
	case <-called:
	case <-time.After(5 * time.Second):
		_ = stop(context.Background())
		return errors.New("scrape did not reach the consumer")
	}
	return stop(context.Background())
}

func main() {
	if len(os.Args) != 4 || os.Args[1] != "replay" {
		fmt.Fprintln(os.Stderr, "usage: obs replay <in> <out>")
		os.Exit(3)
	}
	f, err := os.Open(os.Args[2])
	if err != nil {
		fmt.Fprintln(os.Stderr, err)
		os.Exit(3)
	}
	sc := bufio.NewScanner(f)
	sc.Buffer(make([]byte, 1<<20), 1<<26)
	var behs [][]Step
	for sc.Scan() {
		var b []Step
		if err := json.Unmarshal(sc.Bytes(), &b); err != nil {
			fmt.Fprintln(os.Stderr, err)
			os.Exit(3)
		}
		behs = append(behs, b)
	}
	var mu sync.Mutex
	var mism []*Mismatch
	perKey := map[string]int{}
	sem := make(chan struct{}, 16)
	var wg sync.WaitGroup
	for i := range behs {
		wg.Add(1)
		sem <- struct{}{}
		go func(i int) {
			defer wg.Done()
			defer func() { <-sem }()
			for _, m := range runBeh(i, behs[i]) {
				key := "setup"
				if m.Step >= 0 {
					st := m.Steps[m.Step]
					key = fmt.Sprint(st.Op, st.Sig, st.Mode, st.OK)
				}
				mu.Lock()
				if perKey[key] < 3 { // keep a few of every KIND of mismatch, so one frequent kind cannot hide another
					perKey[key]++
					mism = append(mism, m)
				}
				mu.Unlock()
			}
		}(i)
	}
	wg.Wait()
	b, _ := json.Marshal(map[string]any{"behaviours": len(behs), "mismatches": mism})
	if err := os.WriteFile(os.Args[3], b, 0o644); err != nil {
		fmt.Fprintln(os.Stderr, err)
		os.Exit(3)
	}
}

func attributeKey(k string) attribute.Key { return attribute.Key(k) }
