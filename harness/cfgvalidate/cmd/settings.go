package main

import (
	"bufio"
	"context"
	"encoding/json"
	"fmt"
	"os"
	"reflect"
	"runtime"
	"strings"
	"sort"
	"sync"

	"go.opentelemetry.io/collector/component"
	"go.opentelemetry.io/collector/confmap"
	"go.opentelemetry.io/collector/confmap/provider/yamlprovider"
	"go.opentelemetry.io/collector/confmap/xconfmap"
	"go.opentelemetry.io/collector/connector"
	"go.opentelemetry.io/collector/connector/forwardconnector"
	"go.opentelemetry.io/collector/exporter"
	"go.opentelemetry.io/collector/exporter/debugexporter"
	"go.opentelemetry.io/collector/exporter/nopexporter"
	"go.opentelemetry.io/collector/exporter/otlpexporter"
	"go.opentelemetry.io/collector/exporter/otlphttpexporter"
	"go.opentelemetry.io/collector/extension"
	"go.opentelemetry.io/collector/extension/memorylimiterextension"
	"go.opentelemetry.io/collector/extension/zpagesextension"
	"go.opentelemetry.io/collector/otelcol"
	"go.opentelemetry.io/collector/processor"
	"go.opentelemetry.io/collector/processor/batchprocessor"
	"go.opentelemetry.io/collector/processor/memorylimiterprocessor"
	"go.opentelemetry.io/collector/receiver"
	"go.opentelemetry.io/collector/receiver/nopreceiver"
	"go.opentelemetry.io/collector/receiver/otlpreceiver"
)

// The REAL built-in factories of this module set.
//
//	cfgvalidate settings <out.ndjson>                         one line per factory: {"class","type","defaults"}: the factory's
//	                                                          default configuration as confmap marshals it
//	cfgvalidate overlay-builtin <docs.ndjson> <out.ndjson>    input line {"doc": text}; output line {"i","stage","err","panic","eff"}:
//	                                                          eff = the component sections of conf.Marshal(typed otelcol.Config)
func builtinFactories() otelcol.Factories {
	f := otelcol.Factories{
		Receivers:  map[component.Type]receiver.Factory{},
		Processors: map[component.Type]processor.Factory{},
		Exporters:  map[component.Type]exporter.Factory{},
		Connectors: map[component.Type]connector.Factory{},
		Extensions: map[component.Type]extension.Factory{},
	}
	for _, x := range []receiver.Factory{otlpreceiver.NewFactory(), nopreceiver.NewFactory()} {
		f.Receivers[x.Type()] = x
	}
	for _, x := range []processor.Factory{batchprocessor.NewFactory(), memorylimiterprocessor.NewFactory()} {
		f.Processors[x.Type()] = x
	}
	for _, x := range []exporter.Factory{otlpexporter.NewFactory(), otlphttpexporter.NewFactory(), debugexporter.NewFactory(), nopexporter.NewFactory()} {
		f.Exporters[x.Type()] = x
	}
	for _, x := range []connector.Factory{forwardconnector.NewFactory()} {
		f.Connectors[x.Type()] = x
	}
	for _, x := range []extension.Factory{zpagesextension.NewFactory(), memorylimiterextension.NewFactory()} {
		f.Extensions[x.Type()] = x
	}
	return f
}

type settingsOut struct {
	Class    string         `json:"class"`
	Type     string         `json:"type"`
	Defaults map[string]any `json:"defaults"`
	Schema   []schemaRow    `json:"schema"` // every setting path of the config type (mapstructure tags), incl. the ones omitted when empty
	Err      string         `json:"err,omitempty"`
}

func marshalCfg(cfg component.Config) (map[string]any, error) {
	conf := confmap.New()
	if err := conf.Marshal(cfg); err != nil {
		return nil, err
	}
	m, _ := normNil(conf.ToStringMap()).(map[string]any)
	return m, nil
}

func runSettings(out string) error {
	f := builtinFactories()
	var res []settingsOut
	add := func(class string, ty component.Type, cfg component.Config) {
		o := settingsOut{Class: class, Type: ty.String()}
		m, err := marshalCfg(cfg)
		if err != nil {
			o.Err = err.Error()
		}
		o.Defaults = m
		seen := map[reflect.Type]int{}
		walkSchema(reflect.TypeOf(cfg), "", false, seen, &o.Schema)
		res = append(res, o)
	}
	for t, x := range f.Receivers {
		add("receivers", t, x.CreateDefaultConfig())
	}
	for t, x := range f.Processors {
		add("processors", t, x.CreateDefaultConfig())
	}
	for t, x := range f.Exporters {
		add("exporters", t, x.CreateDefaultConfig())
	}
	for t, x := range f.Connectors {
		add("connectors", t, x.CreateDefaultConfig())
	}
	for t, x := range f.Extensions {
		add("extensions", t, x.CreateDefaultConfig())
	}
	sort.Slice(res, func(i, j int) bool { return res[i].Class+"/"+res[i].Type < res[j].Class+"/"+res[j].Type })
	o, err := os.Create(out)
	if err != nil {
		return err
	}
	bw := bufio.NewWriter(o)
	for _, r := range res {
		b, err := json.Marshal(r)
		if err != nil {
			return err
		}
		bw.Write(b)
		bw.WriteByte('\n')
	}
	if err := bw.Flush(); err != nil {
		return err
	}
	return o.Close()
}

type overlayOut struct {
	I     int            `json:"i"`
	Stage string         `json:"stage"`
	Err   string         `json:"err"`
	Panic string         `json:"panic,omitempty"`
	Eff   map[string]any `json:"eff,omitempty"`
}

func loadOverlayBuiltin(i int, in input) (out overlayOut) {
	out.I = i
	defer func() {
		if r := recover(); r != nil {
			out.Panic = fmt.Sprint(r)
		}
	}()
	ctx := context.Background()
	cp, err := otelcol.NewConfigProvider(otelcol.ConfigProviderSettings{ResolverSettings: confmap.ResolverSettings{
		URIs: []string{"yaml:" + in.Doc}, ProviderFactories: []confmap.ProviderFactory{yamlprovider.NewFactory()}}})
	if err != nil {
		out.Stage, out.Err = "provider", err.Error()
		return out
	}
	defer func() { _ = cp.Shutdown(ctx) }()
	cfg, err := cp.Get(ctx, builtinFactories())
	if err != nil {
		out.Stage, out.Err = "get", err.Error()
		return out
	}
	if err := xconfmap.Validate(cfg); err != nil {
		out.Stage, out.Err = "validate", err.Error()
		return out
	}
	// the effective configuration the way otelcol/collector.go marshals it for extensions
	conf := confmap.New()
	if err := conf.Marshal(cfg); err != nil {
		out.Stage, out.Err = "marshal", err.Error()
		return out
	}
	m := conf.ToStringMap()
	out.Eff = map[string]any{}
	for _, k := range []string{"receivers", "processors", "exporters", "connectors", "extensions"} {
		if v, ok := m[k]; ok {
			out.Eff[k] = normNil(v)
		}
	}
	return out
}

func runOverlayBuiltin(in, out string) error {
	f, err := os.Open(in)
	if err != nil {
		return err
	}
	defer f.Close()
	var lines [][]byte
	sc := bufio.NewScanner(f)
	sc.Buffer(make([]byte, 1<<20), 1<<26)
	for sc.Scan() {
		if len(sc.Bytes()) > 0 {
			lines = append(lines, append([]byte(nil), sc.Bytes()...))
		}
	}
	if err := sc.Err(); err != nil {
		return err
	}
	results := make([][]byte, len(lines))
	workers := runtime.NumCPU()
	if workers > 6 {
		workers = 6
	}
	if os.Getenv("CFGVALIDATE_WORKERS") == "1" {
		workers = 1
	}
	var wg sync.WaitGroup
	ch := make(chan int)
	var mu sync.Mutex
	var first error
	for k := 0; k < workers; k++ {
		wg.Add(1)
		go func() {
			defer wg.Done()
			for i := range ch {
				var inp input
				if err := json.Unmarshal(lines[i], &inp); err != nil {
					mu.Lock()
					if first == nil {
						first = fmt.Errorf("line %d: %w", i, err)
					}
					mu.Unlock()
					continue
				}
				results[i], _ = json.Marshal(loadOverlayBuiltin(i, inp))
			}
		}()
	}
	for i := range lines {
		ch <- i
	}
	close(ch)
	wg.Wait()
	if first != nil {
		return first
	}
	o, err := os.Create(out)
	if err != nil {
		return err
	}
	bw := bufio.NewWriter(o)
	for _, b := range results {
		bw.Write(b)
		bw.WriteByte('\n')
	}
	if err := bw.Flush(); err != nil {
		return err
	}
	return o.Close()
}

type schemaRow struct {
	Path      string `json:"path"`
	Type      string `json:"type"`
	Kind      string `json:"kind"`
	OmitEmpty bool   `json:"omitempty,omitempty"`
}

var textUnmarshalerType = reflect.TypeOf((*interface{ UnmarshalText([]byte) error })(nil)).Elem()

func walkSchema(t reflect.Type, path string, omit bool, seen map[reflect.Type]int, out *[]schemaRow) {
	for t.Kind() == reflect.Ptr {
		t = t.Elem()
	}
	leaf := func(kind string) {
		*out = append(*out, schemaRow{Path: path, Type: t.String(), Kind: kind, OmitEmpty: omit})
	}
	if reflect.PointerTo(t).Implements(textUnmarshalerType) {
		leaf("text")
		return
	}
	switch t.Kind() {
	case reflect.Struct:
		if seen[t] > 1 {
			leaf("recursive")
			return
		}
		seen[t]++
		defer func() { seen[t]-- }()
		n := 0
		for i := 0; i < t.NumField(); i++ {
			f := t.Field(i)
			if !f.IsExported() {
				continue
			}
			tag := f.Tag.Get("mapstructure")
			parts := strings.Split(tag, ",")
			name := parts[0]
			if name == "-" {
				continue
			}
			squash, om := false, false
			for _, p := range parts[1:] {
				if p == "squash" {
					squash = true
				}
				if p == "omitempty" {
					om = true
				}
			}
			n++
			if squash {
				walkSchema(f.Type, path, omit, seen, out)
				continue
			}
			if name == "" {
				name = strings.ToLower(f.Name)
			}
			sub := name
			if path != "" {
				sub = path + "::" + name
			}
			walkSchema(f.Type, sub, om, seen, out)
		}
		if n == 0 {
			leaf("opaque-struct")
		}
	case reflect.Map:
		walkSchema(t.Elem(), path+"::*", omit, seen, out)
	case reflect.Slice, reflect.Array:
		walkSchema(t.Elem(), path+"::[]", omit, seen, out)
	default:
		leaf(t.Kind().String())
	}
}
