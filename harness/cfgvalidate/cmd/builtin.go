package main

import (
	"bufio"
	"context"
	"encoding/json"
	"fmt"
	"os"
	"strings"

	"go.opentelemetry.io/collector/component"
	"go.opentelemetry.io/collector/confmap"
	"go.opentelemetry.io/collector/confmap/provider/yamlprovider"
	"go.opentelemetry.io/collector/confmap/xconfmap"
	"go.opentelemetry.io/collector/exporter"
	"go.opentelemetry.io/collector/exporter/otlphttpexporter"
	"go.opentelemetry.io/collector/otelcol"
	"go.opentelemetry.io/collector/receiver"
	"go.opentelemetry.io/collector/receiver/otlpreceiver"
)

// builtin mode: REAL built-in components (otlphttp exporter, otlp receiver) loaded through the same path; the
// document writes secrets into their opaque settings (headers, response_headers, TLS pem material).  Reported: the
// clear text the typed configuration holds for the header maps, and every place of the marshalled effective
// configuration in which one of the secret texts occurs.
//
//	cfgvalidate builtin <docs.ndjson> <out.ndjson>     input line {"doc": text, "needles": [..]}
type builtinOut struct {
	I        int               `json:"i"`
	Stage    string            `json:"stage"`
	Err      string            `json:"err"`
	Panic    string            `json:"panic,omitempty"`
	Headers  map[string]string `json:"headers"`          // exporters::otlphttp::headers, clear text
	RHeaders map[string]string `json:"response_headers"` // receivers::otlp::protocols::http::response_headers
	KeyPem   string            `json:"key_pem"`          // exporters::otlphttp::tls::key_pem
	Leaks    []leak            `json:"leaks"`
	Redacted int               `json:"redacted"` // number of "[REDACTED]" values in the effective configuration
}

func countMarker(x any) int {
	n := 0
	switch v := x.(type) {
	case map[string]any:
		for _, e := range v {
			n += countMarker(e)
		}
	case []any:
		for _, e := range v {
			n += countMarker(e)
		}
	case string:
		if v == "[REDACTED]" {
			n++
		}
	}
	return n
}

func loadBuiltin(i int, in input) (out builtinOut) {
	out.I = i
	out.Headers, out.RHeaders, out.Leaks = map[string]string{}, map[string]string{}, []leak{}
	defer func() {
		if r := recover(); r != nil {
			out.Panic = fmt.Sprint(r)
		}
	}()
	ctx := context.Background()
	cp, err := otelcol.NewConfigProvider(otelcol.ConfigProviderSettings{ResolverSettings: confmap.ResolverSettings{
		URIs: []string{"yaml:" + in.Doc}, ProviderFactories: []confmap.ProviderFactory{yamlprovider.NewFactory()}}})
	if err != nil {
		out.Stage, out.Err = "provider", err.Error()
		return out
	}
	defer func() { _ = cp.Shutdown(ctx) }()
	ef, rf := otlphttpexporter.NewFactory(), otlpreceiver.NewFactory()
	cfg, err := cp.Get(ctx, otelcol.Factories{
		Receivers: map[component.Type]receiver.Factory{rf.Type(): rf},
		Exporters: map[component.Type]exporter.Factory{ef.Type(): ef},
	})
	if err != nil {
		out.Stage, out.Err = "get", err.Error()
		return out
	}
	if err := xconfmap.Validate(cfg); err != nil {
		out.Stage, out.Err = "validate", err.Error()
	}
	for id, c := range cfg.Exporters {
		if ec, ok := c.(*otlphttpexporter.Config); ok && id.Name() == "" {
			for k, v := range ec.ClientConfig.Headers {
				out.Headers[k] = string(v)
			}
			out.KeyPem = string(ec.ClientConfig.TLSSetting.KeyPem)
		}
	}
	for _, c := range cfg.Receivers {
		if rc, ok := c.(*otlpreceiver.Config); ok && rc.HTTP != nil {
			for k, v := range rc.HTTP.ServerConfig.ResponseHeaders {
				out.RHeaders[k] = string(v)
			}
		}
	}
	conf := confmap.New()
	if err := conf.Marshal(cfg); err != nil {
		out.Stage, out.Err = "marshal", err.Error()
		return out
	}
	m := conf.ToStringMap()
	findLeaks(m, "", in.Needles, &out.Leaks)
	if b, err := json.Marshal(m); err == nil && len(out.Leaks) == 0 {
		for _, n := range in.Needles {
			if n != "" && strings.Contains(string(b), n) {
				out.Leaks = append(out.Leaks, leak{Needle: n, Path: "(rendered)"})
			}
		}
	}
	out.Redacted = countMarker(m)
	return out
}

func runBuiltin(in, out string) error {
	f, err := os.Open(in)
	if err != nil {
		return err
	}
	defer f.Close()
	o, err := os.Create(out)
	if err != nil {
		return err
	}
	bw := bufio.NewWriter(o)
	sc := bufio.NewScanner(f)
	sc.Buffer(make([]byte, 1<<20), 1<<26)
	i := 0
	for sc.Scan() {
		if len(sc.Bytes()) == 0 {
			continue
		}
		var inp input
		if err := json.Unmarshal(sc.Bytes(), &inp); err != nil {
			return fmt.Errorf("line %d: %w", i, err)
		}
		b, _ := json.Marshal(loadBuiltin(i, inp))
		bw.Write(b)
		bw.WriteByte('\n')
		i++
	}
	if err := sc.Err(); err != nil {
		return err
	}
	if err := bw.Flush(); err != nil {
		return err
	}
	return o.Close()
}
