// Command cfgvalidate loads configuration documents through the real otelcol configuration path:
// confmap resolver (yaml provider) -> otelcol.ConfigProvider.Get (unmarshal with the given factories)
// -> xconfmap.Validate (the reflective validation walk, which calls otelcol.Config.Validate,
// service/pipelines validation, ...), exactly what otelcol/collector.go does before building a service.
//
//	cfgvalidate <docs.ndjson> <out.ndjson>
//
// input line:  {"doc": "<yaml/json text>", "types": {"receivers":[..],"processors":[..],"exporters":[..],"connectors":[..],"extensions":[..]}}
// output line: {"i": n, "stage": "" | "get" | "validate", "err": "<text>"}
package main

import (
	"bufio"
	"context"
	"encoding/json"
	"fmt"
	"os"
	"runtime"
	"sync"
	"sync/atomic"

	"go.opentelemetry.io/collector/component"
	"go.opentelemetry.io/collector/confmap"
	"go.opentelemetry.io/collector/confmap/provider/yamlprovider"
	"go.opentelemetry.io/collector/confmap/xconfmap"
	"go.opentelemetry.io/collector/connector"
	"go.opentelemetry.io/collector/exporter"
	"go.opentelemetry.io/collector/extension"
	"go.opentelemetry.io/collector/otelcol"
	"go.opentelemetry.io/collector/processor"
	"go.opentelemetry.io/collector/receiver"
)

type input struct {
	Doc   string              `json:"doc"`
	Types map[string][]string `json:"types"`
}

type output struct {
	I     int    `json:"i"`
	Stage string `json:"stage"`
	Err   string `json:"err"`
	Err2  string `json:"err2,omitempty"`
	Panic string `json:"panic,omitempty"`
}

type emptyCfg struct{}

func defCfg() component.Config { return &emptyCfg{} }

func factories(t map[string][]string) otelcol.Factories {
	f := otelcol.Factories{
		Receivers:  map[component.Type]receiver.Factory{},
		Processors: map[component.Type]processor.Factory{},
		Exporters:  map[component.Type]exporter.Factory{},
		Connectors: map[component.Type]connector.Factory{},
		Extensions: map[component.Type]extension.Factory{},
	}
	for _, s := range t["receivers"] {
		ty := component.MustNewType(s)
		f.Receivers[ty] = receiver.NewFactory(ty, defCfg)
	}
	for _, s := range t["processors"] {
		ty := component.MustNewType(s)
		f.Processors[ty] = processor.NewFactory(ty, defCfg)
	}
	for _, s := range t["exporters"] {
		ty := component.MustNewType(s)
		f.Exporters[ty] = exporter.NewFactory(ty, defCfg)
	}
	for _, s := range t["connectors"] {
		ty := component.MustNewType(s)
		f.Connectors[ty] = connector.NewFactory(ty, defCfg)
	}
	for _, s := range t["extensions"] {
		ty := component.MustNewType(s)
		f.Extensions[ty] = extension.NewFactory(ty, defCfg, nil, component.StabilityLevelDevelopment)
	}
	return f
}

func load(i int, in input) (out output) {
	out.I = i
	defer func() {
		if r := recover(); r != nil {
			out.Panic = fmt.Sprint(r)
		}
	}()
	ctx := context.Background()
	cp, err := otelcol.NewConfigProvider(otelcol.ConfigProviderSettings{
		ResolverSettings: confmap.ResolverSettings{
			URIs:              []string{"yaml:" + in.Doc},
			ProviderFactories: []confmap.ProviderFactory{yamlprovider.NewFactory()},
		},
	})
	if err != nil {
		out.Stage, out.Err = "provider", err.Error()
		return out
	}
	defer func() { _ = cp.Shutdown(ctx) }()
	cfg, err := cp.Get(ctx, factories(in.Types))
	if err != nil {
		out.Stage, out.Err = "get", err.Error()
		return out
	}
	if err := xconfmap.Validate(cfg); err != nil {
		out.Stage, out.Err = "validate", err.Error()
		// the same error value rendered again (a caller that logs it and then prints it): the entry it names must not change
		for _, again := range []string{fmt.Sprintf("%v", err), err.Error(), fmt.Sprint(err)} {
			if again != out.Err {
				out.Err2 = again
				break
			}
		}
	}
	return out
}

func main() {
	if len(os.Args) < 3 {
		fmt.Fprintln(os.Stderr, "usage: cfgvalidate <docs.ndjson> <out.ndjson>")
		os.Exit(64)
	}
	f, err := os.Open(os.Args[1])
	if err != nil {
		fmt.Fprintln(os.Stderr, err)
		os.Exit(1)
	}
	defer f.Close()
	var lines [][]byte
	sc := bufio.NewScanner(f)
	sc.Buffer(make([]byte, 1<<20), 1<<26)
	for sc.Scan() {
		if len(sc.Bytes()) > 0 {
			lines = append(lines, append([]byte(nil), sc.Bytes()...))
		}
	}
	if err := sc.Err(); err != nil {
		fmt.Fprintln(os.Stderr, err)
		os.Exit(1)
	}
	results := make([][]byte, len(lines))
	workers := runtime.NumCPU()
	if workers > 8 {
		workers = 8
	}
	var wg sync.WaitGroup
	var bad atomic.Int64
	ch := make(chan int)
	for k := 0; k < workers; k++ {
		wg.Add(1)
		go func() {
			defer wg.Done()
			for i := range ch {
				var in input
				if err := json.Unmarshal(lines[i], &in); err != nil {
					fmt.Fprintln(os.Stderr, "line", i, err)
					bad.Add(1)
					continue
				}
				results[i], _ = json.Marshal(load(i, in))
			}
		}()
	}
	for i := range lines {
		ch <- i
	}
	close(ch)
	wg.Wait()
	if bad.Load() > 0 {
		os.Exit(1)
	}
	o, err := os.Create(os.Args[2])
	if err != nil {
		fmt.Fprintln(os.Stderr, err)
		os.Exit(1)
	}
	bw := bufio.NewWriter(o)
	for _, b := range results {
		bw.Write(b)
		bw.WriteByte('\n')
	}
	if err := bw.Flush(); err != nil {
		fmt.Fprintln(os.Stderr, err)
		os.Exit(1)
	}
	o.Close()
}
