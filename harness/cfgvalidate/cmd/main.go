// Command cfgvalidate loads configuration documents through the real otelcol configuration path:
// confmap resolver (yaml provider) -> otelcol.ConfigProvider.Get (unmarshal with the given factories)
// -> xconfmap.Validate (the reflective validation walk, which calls otelcol.Config.Validate,
// service/pipelines validation, ...), exactly what otelcol/collector.go does before building a service.
//
//	cfgvalidate <docs.ndjson> <out.ndjson>
//	cfgvalidate seq <sequences.ndjson> <out.ndjson>  (documents loaded one after the other in ONE process, one goroutine:
//	                                                 input line {"docs": [text..], "types": {..}}, output line {"i", "loads": [output..]})
//	cfgvalidate builtin <docs.ndjson> <out.ndjson>   (builtin.go: real otlphttp exporter / otlp receiver configs with secrets)
//	cfgvalidate settings <out.ndjson>                (settings.go: default configuration of every built-in factory as confmap marshals it)
//	cfgvalidate overlay-builtin <docs.ndjson> <out.ndjson>  (settings.go: documents of the real built-in components -> effective component configs)
//	cfgvalidate walk <trees.ndjson> <out.ndjson>     (walk.go: xconfmap.Validate on generated value trees)
//
// input line:  {"doc": "<yaml/json text>", "types": {"receivers":[..],"processors":[..],"exporters":[..],"connectors":[..],"extensions":[..]}}
// output line: {"i": n, "stage": "" | "get" | "validate", "err": "<text>"}
package main

import (
	"bufio"
	"context"
	"encoding/json"
	"fmt"
	"os"
	"runtime"
	"strings"
	"sync"
	"sync/atomic"

	"go.opentelemetry.io/collector/component"
	"go.opentelemetry.io/collector/config/configopaque"
	"go.opentelemetry.io/collector/confmap"
	"go.opentelemetry.io/collector/confmap/provider/yamlprovider"
	"go.opentelemetry.io/collector/confmap/xconfmap"
	"go.opentelemetry.io/collector/connector"
	"go.opentelemetry.io/collector/exporter"
	"go.opentelemetry.io/collector/extension"
	"go.opentelemetry.io/collector/otelcol"
	"go.opentelemetry.io/collector/processor"
	"go.opentelemetry.io/collector/receiver"
)

type input struct {
	Doc   string              `json:"doc"`
	Types map[string][]string `json:"types"`
	Eff   bool                `json:"eff"` // also marshal the effective configuration (seq mode)
	// secret texts the document wrote: none of them may occur anywhere in the marshalled effective configuration
	Needles []string `json:"needles,omitempty"`
}

type leak struct {
	Needle string `json:"needle"`
	Path   string `json:"path"`
}

// findLeaks searches the whole effective configuration tree (keys and values) for the needles.
func findLeaks(x any, path string, needles []string, out *[]leak) {
	hit := func(s, p string) {
		for _, n := range needles {
			if n != "" && strings.Contains(s, n) {
				*out = append(*out, leak{Needle: n, Path: p})
			}
		}
	}
	switch v := x.(type) {
	case map[string]any:
		for k, e := range v {
			hit(k, path+"::"+k+" (key)")
			findLeaks(e, path+"::"+k, needles, out)
		}
	case []any:
		for i, e := range v {
			findLeaks(e, fmt.Sprintf("%s::%d", path, i), needles, out)
		}
	case nil:
	default:
		hit(fmt.Sprintf("%v", v), path)
		if s, ok := v.(string); ok {
			hit(s, path)
		}
	}
}

type output struct {
	I     int    `json:"i"`
	Stage string `json:"stage"`
	Err   string `json:"err"`
	Err2  string `json:"err2,omitempty"`
	Panic string `json:"panic,omitempty"`
	View  *view  `json:"view,omitempty"` // typed configuration as decoded (whenever Get succeeded)
	// the effective configuration as otelcol/collector.go marshals it for extensions (conf.Marshal(cfg)), restricted
	// to service::telemetry::{logs,metrics} and the component sections
	Eff    map[string]any `json:"eff,omitempty"`
	EffErr string         `json:"eff_err,omitempty"`
	Leaks  []leak         `json:"leaks,omitempty"` // needles found in the effective configuration (whole tree + its yaml/json rendering)
}

// normNil turns typed nil slices into empty lists: Conf.ToStringMap hands out []any(nil) for an empty list, which
// IS an empty list for every Go consumer (and for yaml), but would be rendered as null by encoding/json here.
func normNil(x any) any {
	switch v := x.(type) {
	case map[string]any:
		for k, e := range v {
			v[k] = normNil(e)
		}
		return v
	case []any:
		if v == nil {
			return []any{}
		}
		for i, e := range v {
			v[i] = normNil(e)
		}
		return v
	}
	return x
}

func effOf(cfg *otelcol.Config, needles []string) (map[string]any, []leak, error) {
	conf := confmap.New()
	if err := conf.Marshal(cfg); err != nil {
		return nil, nil, err
	}
	m := conf.ToStringMap()
	var leaks []leak
	findLeaks(m, "", needles, &leaks)
	if b, err := json.Marshal(m); err == nil { // and in a rendering of the whole thing, whatever the tree walk may have missed
		for _, n := range needles {
			if n != "" && strings.Contains(string(b), n) && len(leaks) == 0 {
				leaks = append(leaks, leak{Needle: n, Path: "(rendered)"})
			}
		}
	}
	out := map[string]any{}
	for _, k := range []string{"receivers", "processors", "exporters", "connectors", "extensions"} {
		if v, ok := m[k]; ok {
			out[k] = v
		}
	}
	if svc, ok := m["service"].(map[string]any); ok {
		if tel, ok := svc["telemetry"].(map[string]any); ok {
			out["logs"] = tel["logs"]
			if mm, ok := tel["metrics"].(map[string]any); ok {
				out["metrics_level"] = mm["level"]
			}
		}
	}
	return normNil(out).(map[string]any), leaks, nil
}

// compCfg is the configuration of every test component: a few real fields, a nested struct and a map of
// structs, so that "a key no field accepts" can be tried at depth 1, 2 and 3 inside a component body.
type rowCfg struct {
	Weight int `mapstructure:"weight" json:"weight"`
}

type nestedCfg struct {
	Flag bool   `mapstructure:"flag" json:"flag"`
	Name string `mapstructure:"name" json:"name"`
}

type optCfg struct {
	Size int    `mapstructure:"size" json:"size"`
	Mode string `mapstructure:"mode" json:"mode"`
}

type compCfg struct {
	Endpoint string            `mapstructure:"endpoint" json:"endpoint"`
	Limit    int               `mapstructure:"limit" json:"limit"`
	Nested   nestedCfg         `mapstructure:"nested" json:"nested"`
	Table    map[string]rowCfg `mapstructure:"table" json:"table"`
	// settings with NON-ZERO factory defaults behind a pointer, in a map and in a slice
	Opt    *optCfg           `mapstructure:"opt" json:"opt"`
	Labels map[string]string `mapstructure:"labels" json:"labels"`
	Hosts  []string          `mapstructure:"hosts" json:"hosts"`
	// secret-typed settings in every container position the encoder distinguishes, and two non-secret ones for contrast
	Secret    configopaque.String            `mapstructure:"secret" json:"-"`
	SecretPtr *configopaque.String           `mapstructure:"secret_ptr" json:"-"`
	Secrets   []configopaque.String          `mapstructure:"secrets" json:"-"`
	SecretMap map[string]configopaque.String `mapstructure:"secret_map" json:"-"`
	Rows      map[string]SecRow              `mapstructure:"rows" json:"-"`
	RowList   []SecRow                       `mapstructure:"row_list" json:"-"`
	Creds     `mapstructure:",squash" json:"-"`
	Public    string            `mapstructure:"public" json:"-"`
	PublicMap map[string]string `mapstructure:"public_map" json:"-"`
}

// SecRow is a struct holding a secret, used as map value and slice element.
type SecRow struct {
	Token configopaque.String `mapstructure:"token" json:"-"`
}

// Creds is embedded (squash) in compCfg.
type Creds struct {
	Password configopaque.String `mapstructure:"password" json:"-"`
}

// secView shows the CLEAR TEXT the typed configuration holds (cast to string, the documented way to read a secret).
type secView struct {
	Secret    string            `json:"secret"`
	SecretPtr *string           `json:"secret_ptr"`
	Secrets   []string          `json:"secrets"`
	SecretMap map[string]string `json:"secret_map"`
	Rows      map[string]string `json:"rows"`
	RowList   []string          `json:"row_list"`
	Password  string            `json:"password"`
	Public    string            `json:"public"`
	PublicMap map[string]string `json:"public_map"`
}

type compView struct {
	*compCfg
	Sec secView `json:"sec"`
}

func secOf(c *compCfg) secView {
	v := secView{Secret: string(c.Secret), Secrets: []string{}, SecretMap: map[string]string{}, Rows: map[string]string{},
		RowList: []string{}, Password: string(c.Password), Public: c.Public, PublicMap: map[string]string{}}
	if c.SecretPtr != nil {
		x := string(*c.SecretPtr)
		v.SecretPtr = &x
	}
	for _, x := range c.Secrets {
		v.Secrets = append(v.Secrets, string(x))
	}
	for k, x := range c.SecretMap {
		v.SecretMap[k] = string(x)
	}
	for k, x := range c.Rows {
		v.Rows[k] = string(x.Token)
	}
	for _, x := range c.RowList {
		v.RowList = append(v.RowList, string(x.Token))
	}
	for k, x := range c.PublicMap {
		v.PublicMap[k] = x
	}
	return v
}

func defCfg() component.Config {
	return &compCfg{Endpoint: "default:1", Limit: 7, Nested: nestedCfg{Name: "dflt"},
		Opt: &optCfg{Size: 5, Mode: "m0"}, Labels: map[string]string{"env": "dev"}, Hosts: []string{"h0", "hx"}}
}

// view is the part of the typed configuration the check compares with what the document wrote.
type samplingView struct {
	Enabled    bool `json:"enabled"`
	Initial    int  `json:"initial"`
	Thereafter int  `json:"thereafter"`
}

type view struct {
	LogsLevel    string                         `json:"logs_level"`
	LogsEncoding string                         `json:"logs_encoding"`
	Sampling     *samplingView                  `json:"sampling"`
	MetricsLevel string                         `json:"metrics_level"`
	Resource     map[string]*string             `json:"resource"`
	Comps        map[string]map[string]*compView `json:"comps"`
	Pipelines    map[string]map[string][]string `json:"pipelines"`
	Extensions   []string                       `json:"sexts"`
}

func viewOf(cfg *otelcol.Config) *view {
	v := &view{
		LogsLevel:    cfg.Service.Telemetry.Logs.Level.String(),
		LogsEncoding: cfg.Service.Telemetry.Logs.Encoding,
		MetricsLevel: cfg.Service.Telemetry.Metrics.Level.String(),
		Resource:     cfg.Service.Telemetry.Resource,
		Comps:        map[string]map[string]*compView{},
		Pipelines:    map[string]map[string][]string{},
		Extensions:   []string{},
	}
	if sp := cfg.Service.Telemetry.Logs.Sampling; sp != nil {
		v.Sampling = &samplingView{Enabled: sp.Enabled, Initial: sp.Initial, Thereafter: sp.Thereafter}
	}
	sect := func(name string, m map[component.ID]component.Config) {
		out := map[string]*compView{}
		for id, c := range m {
			if cc, ok := c.(*compCfg); ok {
				out[id.String()] = &compView{compCfg: cc, Sec: secOf(cc)}
			}
		}
		v.Comps[name] = out
	}
	sect("receivers", cfg.Receivers)
	sect("processors", cfg.Processors)
	sect("exporters", cfg.Exporters)
	sect("connectors", cfg.Connectors)
	sect("extensions", cfg.Extensions)
	strs := func(ids []component.ID) []string {
		out := []string{}
		for _, id := range ids {
			out = append(out, id.String())
		}
		return out
	}
	for pid, p := range cfg.Service.Pipelines {
		v.Pipelines[pid.String()] = map[string][]string{"receivers": strs(p.Receivers), "processors": strs(p.Processors), "exporters": strs(p.Exporters)}
	}
	v.Extensions = strs(cfg.Service.Extensions)
	return v
}

func factories(t map[string][]string) otelcol.Factories {
	f := otelcol.Factories{
		Receivers:  map[component.Type]receiver.Factory{},
		Processors: map[component.Type]processor.Factory{},
		Exporters:  map[component.Type]exporter.Factory{},
		Connectors: map[component.Type]connector.Factory{},
		Extensions: map[component.Type]extension.Factory{},
	}
	for _, s := range t["receivers"] {
		ty := component.MustNewType(s)
		f.Receivers[ty] = receiver.NewFactory(ty, defCfg)
	}
	for _, s := range t["processors"] {
		ty := component.MustNewType(s)
		f.Processors[ty] = processor.NewFactory(ty, defCfg)
	}
	for _, s := range t["exporters"] {
		ty := component.MustNewType(s)
		f.Exporters[ty] = exporter.NewFactory(ty, defCfg)
	}
	for _, s := range t["connectors"] {
		ty := component.MustNewType(s)
		f.Connectors[ty] = connector.NewFactory(ty, defCfg)
	}
	for _, s := range t["extensions"] {
		ty := component.MustNewType(s)
		f.Extensions[ty] = extension.NewFactory(ty, defCfg, nil, component.StabilityLevelDevelopment)
	}
	return f
}

func load(i int, in input) (out output) {
	out.I = i
	defer func() {
		if r := recover(); r != nil {
			out.Panic = fmt.Sprint(r)
		}
	}()
	ctx := context.Background()
	cp, err := otelcol.NewConfigProvider(otelcol.ConfigProviderSettings{
		ResolverSettings: confmap.ResolverSettings{
			URIs:              []string{"yaml:" + in.Doc},
			ProviderFactories: []confmap.ProviderFactory{yamlprovider.NewFactory()},
		},
	})
	if err != nil {
		out.Stage, out.Err = "provider", err.Error()
		return out
	}
	defer func() { _ = cp.Shutdown(ctx) }()
	cfg, err := cp.Get(ctx, factories(in.Types))
	if err != nil {
		out.Stage, out.Err = "get", err.Error()
		return out
	}
	out.View = viewOf(cfg)
	if in.Eff {
		if eff, leaks, err := effOf(cfg, in.Needles); err != nil {
			out.EffErr = err.Error()
		} else {
			out.Eff, out.Leaks = eff, leaks
		}
	}
	if err := xconfmap.Validate(cfg); err != nil {
		out.Stage, out.Err = "validate", err.Error()
		// the same error value rendered again (a caller that logs it and then prints it): the entry it names must not change
		for _, again := range []string{fmt.Sprintf("%v", err), err.Error(), fmt.Sprint(err)} {
			if again != out.Err {
				out.Err2 = again
				break
			}
		}
	}
	return out
}

func main() {
	if len(os.Args) < 3 {
		fmt.Fprintln(os.Stderr, "usage: cfgvalidate [walk] <in.ndjson> <out.ndjson>")
		os.Exit(64)
	}
	walk := false
	if os.Args[1] == "walk" {
		walk = true
		os.Args = append(os.Args[:1], os.Args[2:]...)
	}
	if os.Args[1] == "builtin" {
		if err := runBuiltin(os.Args[2], os.Args[3]); err != nil {
			fmt.Fprintln(os.Stderr, err)
			os.Exit(1)
		}
		return
	}
	if os.Args[1] == "settings" {
		if err := runSettings(os.Args[2]); err != nil {
			fmt.Fprintln(os.Stderr, err)
			os.Exit(1)
		}
		return
	}
	if os.Args[1] == "overlay-builtin" && len(os.Args) >= 4 {
		if err := runOverlayBuiltin(os.Args[2], os.Args[3]); err != nil {
			fmt.Fprintln(os.Stderr, err)
			os.Exit(1)
		}
		return
	}
	if os.Args[1] == "seq" {
		if err := runSeq(os.Args[2], os.Args[3]); err != nil {
			fmt.Fprintln(os.Stderr, err)
			os.Exit(1)
		}
		return
	}
	f, err := os.Open(os.Args[1])
	if err != nil {
		fmt.Fprintln(os.Stderr, err)
		os.Exit(1)
	}
	defer f.Close()
	var lines [][]byte
	sc := bufio.NewScanner(f)
	sc.Buffer(make([]byte, 1<<20), 1<<26)
	for sc.Scan() {
		if len(sc.Bytes()) > 0 {
			lines = append(lines, append([]byte(nil), sc.Bytes()...))
		}
	}
	if err := sc.Err(); err != nil {
		fmt.Fprintln(os.Stderr, err)
		os.Exit(1)
	}
	results := make([][]byte, len(lines))
	workers := runtime.NumCPU()
	if workers > 8 {
		workers = 8
	}
	if os.Getenv("CFGVALIDATE_WORKERS") == "1" {
		workers = 1 // loads strictly one after the other, as a collector process does
	}
	var wg sync.WaitGroup
	var bad atomic.Int64
	ch := make(chan int)
	for k := 0; k < workers; k++ {
		wg.Add(1)
		go func() {
			defer wg.Done()
			for i := range ch {
				if walk {
					var t treeIn
					if err := json.Unmarshal(lines[i], &t); err != nil {
						fmt.Fprintln(os.Stderr, "line", i, err)
						bad.Add(1)
						continue
					}
					results[i], _ = json.Marshal(runWalk(i, t))
					continue
				}
				var in input
				if err := json.Unmarshal(lines[i], &in); err != nil {
					fmt.Fprintln(os.Stderr, "line", i, err)
					bad.Add(1)
					continue
				}
				results[i], _ = json.Marshal(load(i, in))
			}
		}()
	}
	for i := range lines {
		ch <- i
	}
	close(ch)
	wg.Wait()
	if bad.Load() > 0 {
		os.Exit(1)
	}
	o, err := os.Create(os.Args[2])
	if err != nil {
		fmt.Fprintln(os.Stderr, err)
		os.Exit(1)
	}
	bw := bufio.NewWriter(o)
	for _, b := range results {
		bw.Write(b)
		bw.WriteByte('\n')
	}
	if err := bw.Flush(); err != nil {
		fmt.Fprintln(os.Stderr, err)
		os.Exit(1)
	}
	o.Close()
}

type seqIn struct {
	Docs    []string            `json:"docs"`
	Types   map[string][]string `json:"types"`
	Needles [][]string          `json:"needles"` // per document
}

type seqOut struct {
	I     int      `json:"i"`
	Loads []output `json:"loads"`
}

// runSeq loads every document of every sequence in order, in this process, on this goroutine: whatever one load
// leaves behind in process-wide state is there for all later loads.
func runSeq(in, out string) error {
	f, err := os.Open(in)
	if err != nil {
		return err
	}
	defer f.Close()
	o, err := os.Create(out)
	if err != nil {
		return err
	}
	bw := bufio.NewWriter(o)
	sc := bufio.NewScanner(f)
	sc.Buffer(make([]byte, 1<<20), 1<<26)
	i := 0
	for sc.Scan() {
		if len(sc.Bytes()) == 0 {
			continue
		}
		var s seqIn
		if err := json.Unmarshal(sc.Bytes(), &s); err != nil {
			return fmt.Errorf("line %d: %w", i, err)
		}
		res := seqOut{I: i}
		for k, d := range s.Docs {
			res.Loads = append(res.Loads, load(k, input{Doc: d, Types: s.Types, Eff: true, Needles: needlesOf(s, k)}))
		}
		b, _ := json.Marshal(res)
		bw.Write(b)
		bw.WriteByte('\n')
		i++
	}
	if err := sc.Err(); err != nil {
		return err
	}
	if err := bw.Flush(); err != nil {
		return err
	}
	return o.Close()
}

func needlesOf(s seqIn, k int) []string {
	if k < len(s.Needles) {
		return s.Needles[k]
	}
	return nil
}
