// conc mode: real concurrency between Start and Shutdown of the users of one shared limiter.
//
// A script is {"steps":[...]} with steps
//
//	{"k":"start","u":U} {"k":"shutdown","u":U}   sequential call
//	{"k":"hold"}      the next ticker-driven memory check is kept inside ReadMemStatsFn
//	{"k":"par","mode":"barrier"|"choreo","wait_ms":N,"ops":[{"op":"start"|"shutdown","u":U},...]}
//	                  calls issued from one goroutine each; barrier: released together by a spin
//	                  barrier (in the listed order, a few hundred ns apart); choreo: one after the
//	                  other, each given wait_ms to return before the next is issued.  The step does
//	                  not wait for completion.
//	{"k":"release"}   the held check is let go
//	{"k":"join"}      wait for all calls in flight
//	{"k":"obs"}       do checks keep coming?  how many checker goroutines exist?
//
// Every call/return, hold and release is appended to one event log under one mutex; TLC looks for an
// execution of MemoryLimiterConc that explains it (MemoryLimiterConcTrace).  Scripts run one after the
// other (the goroutine dump is process wide).
package main

import (
	"bufio"
	"bytes"
	"context"
	"encoding/json"
	"fmt"
	"os"
	"runtime"
	"strings"
	"sync"
	"sync/atomic"
	"time"

	"go.opentelemetry.io/collector/component/componenttest"
)

type cop struct {
	Op string `json:"op"`
	U  string `json:"u"`
}

type cstep struct {
	K      string `json:"k"`
	U      string `json:"u"`
	Mode   string `json:"mode"`
	WaitMs int    `json:"wait_ms"`
	Ops    []cop  `json:"ops"`
}

type cscript struct {
	Steps []cstep `json:"steps"`
}

type cev map[string]any

// checker goroutines in a dump of all goroutines
func checkerGoroutines() int {
	buf := make([]byte, 1<<20)
	for {
		n := runtime.Stack(buf, true)
		if n < len(buf) {
			buf = buf[:n]
			break
		}
		buf = make([]byte, 2*len(buf))
	}
	cnt := 0
	for _, g := range strings.Split(string(buf), "\n\n") {
		if strings.Contains(g, "memorylimiter.(*MemoryLimiter).Start") {
			cnt++
		}
	}
	return cnt
}

type concRun struct {
	c     cfgT
	names []string

	mu  sync.Mutex
	evs []cev

	sys     *system
	armed   atomic.Bool
	holding atomic.Bool
	gate    chan struct{}

	users   map[string]*user
	pending sync.WaitGroup
	started map[string]bool // Start returned nil and Shutdown has not returned nil
	scan    bool            // goroutine dumps are usable
	base    int
}

func (r *concRun) log(e cev) {
	r.mu.Lock()
	r.evs = append(r.evs, e)
	r.mu.Unlock()
}

func (r *concRun) hook() {
	if r.armed.CompareAndSwap(true, false) {
		g := r.gate
		r.holding.Store(true)
		r.log(cev{"ev": "hold"})
		<-g
	}
}

func (r *concRun) call(op, u string) {
	us := r.users[u]
	r.log(cev{"ev": "call", "u": u, "op": op})
	res := "nil"
	func() {
		defer func() {
			if p := recover(); p != nil {
				res = "panic"
			}
		}()
		var err error
		if op == "start" {
			err = startC(func(sc context.Context) error { return us.comp.Start(sc, componenttest.NewNopHost()) })
		} else {
			err = us.comp.Shutdown(context.Background())
		}
		if err != nil {
			res = "err"
		}
	}()
	r.mu.Lock()
	r.evs = append(r.evs, cev{"ev": "ret", "u": u, "op": op, "res": res})
	if res == "nil" {
		r.started[u] = op == "start"
	}
	r.mu.Unlock()
}

func (r *concRun) release() {
	if r.holding.CompareAndSwap(true, false) {
		r.log(cev{"ev": "release"})
		close(r.gate)
	}
	r.armed.Store(false)
}

func (r *concRun) observe() {
	n0 := r.sys.count()
	ticking := r.sys.waitReads(n0, 1, 50*time.Millisecond)
	gor := -1
	if r.scan {
		gor = checkerGoroutines() - r.base
	}
	if !ticking && gor != 0 {
		// a checker seems to exist: give its ticker a generous chance before calling it silent
		ticking = r.sys.waitReads(n0, 1, 2*time.Second)
	}
	r.log(cev{"ev": "obs", "ticking": ticking, "gor": gor})
}

func (r *concRun) run(sc cscript) error {
	for _, st := range sc.Steps {
		switch st.K {
		case "start", "shutdown":
			r.call(st.K, st.U)
		case "hold":
			r.gate = make(chan struct{})
			r.armed.Store(true)
			dl := time.Now().Add(5 * time.Second)
			for !r.holding.Load() && time.Now().Before(dl) {
				time.Sleep(100 * time.Microsecond)
			}
			if !r.holding.Load() {
				r.armed.Store(false) // no check came: continue without a held check
			}
		case "release":
			r.release()
		case "par":
			wait := time.Duration(st.WaitMs) * time.Millisecond
			if st.Mode == "barrier" {
				var turn atomic.Int32
				turn.Store(-1)
				for i, o := range st.Ops {
					r.pending.Add(1)
					go func(i int, o cop) {
						defer r.pending.Done()
						for turn.Load() < int32(i) {
						}
						r.call(o.Op, o.U)
					}(i, o)
				}
				time.Sleep(2 * time.Millisecond) // let the goroutines reach the barrier
				for i := range st.Ops {
					turn.Store(int32(i))
				}
				time.Sleep(wait)
			} else {
				for _, o := range st.Ops {
					done := make(chan struct{})
					r.pending.Add(1)
					go func(o cop) {
						defer r.pending.Done()
						defer close(done)
						r.call(o.Op, o.U)
					}(o)
					select {
					case <-done:
					case <-time.After(wait):
					}
				}
			}
		case "join":
			ch := make(chan struct{})
			go func() { r.pending.Wait(); close(ch) }()
			select {
			case <-ch:
			case <-time.After(20 * time.Second):
				r.log(cev{"ev": "stuck"})
				return nil
			}
		case "obs":
			r.observe()
		default:
			return fmt.Errorf("unknown step %q", st.K)
		}
	}
	return nil
}

func runConc(c cfgT, in, out string, names []string) error {
	f, err := os.Open(in)
	if err != nil {
		return err
	}
	var scripts []cscript
	scn := bufio.NewScanner(f)
	scn.Buffer(make([]byte, 1<<20), 1<<26)
	for scn.Scan() {
		if len(bytes.TrimSpace(scn.Bytes())) == 0 {
			continue
		}
		var s cscript
		if err := json.Unmarshal(scn.Bytes(), &s); err != nil {
			return err
		}
		scripts = append(scripts, s)
	}
	f.Close()

	// calibrate the goroutine scan: a started limiter must show exactly one more checker goroutine
	scan := false
	{
		sys := &system{}
		us, err := buildUsers(c, sys, names[:1])
		if err != nil {
			return err
		}
		b0 := checkerGoroutines()
		_ = startC(func(sc context.Context) error { return us[names[0]].comp.Start(sc, componenttest.NewNopHost()) })
		b1 := checkerGoroutines()
		_ = us[names[0]].comp.Shutdown(context.Background())
		b2 := checkerGoroutines()
		scan = b1 == b0+1 && b2 == b0
	}

	o, err := os.Create(out)
	if err != nil {
		return err
	}
	defer o.Close()
	w := bufio.NewWriter(o)
	defer w.Flush()
	enc := json.NewEncoder(w)
	for sid, sc := range scripts {
		r := &concRun{c: c, names: names, started: map[string]bool{}, scan: scan}
		r.sys = &system{hook: r.hook}
		r.users, err = buildUsers(c, r.sys, names)
		if err != nil {
			return err
		}
		r.base = checkerGoroutines()
		r.log(cev{"ev": "reset", "sid": sid})
		if err := r.run(sc); err != nil {
			return err
		}
		// clean up (not part of the trace)
		r.release()
		done := make(chan struct{})
		go func() { r.pending.Wait(); close(done) }()
		select {
		case <-done:
		case <-time.After(20 * time.Second):
		}
		r.mu.Lock()
		evs := r.evs
		r.evs = nil
		var left []string
		for u, on := range r.started {
			if on {
				left = append(left, u)
			}
		}
		r.mu.Unlock()
		for _, u := range left {
			func() {
				defer func() { _ = recover() }()
				_ = r.users[u].comp.Shutdown(context.Background())
			}()
		}
		for _, e := range evs {
			if err := enc.Encode(e); err != nil {
				return err
			}
		}
	}
	return enc.Encode(cev{"ev": "end"})
}

// startC calls a component's Start with a context that is cancelled as soon as Start has returned: component.Component
// says that context "will be cancelled soon", so nothing that has to outlive Start may depend on it.
func startC(start func(context.Context) error) error {
	ctx, cancel := context.WithCancel(context.Background())
	defer cancel()
	return start(ctx)
}
