// Conformance driver for C18 (memory limiter).
//
//	memlimiter checks <cfg.json> <behaviours.ndjson> <result.json>
//	    TLC-generated check sequences [{k:"check",d,r,a,gc,refuse},...] replayed through the real
//	    memorylimiter.MemoryLimiter (CheckMemLimits called directly, ReadMemStatsFn scripted); the
//	    refuse flag, the forced collection (runtime forced-GC counter) and the re-measurement are
//	    compared with the specified decision after every step.  No sleeping: intervals are 0 or huge.
//	memlimiter timed <cfg.json> <behaviours.ndjson> <trace.ndjson>
//	    the same scripts with finite GC intervals in real time; nothing is compared here, the
//	    observations (readings, decisions, measured instants) are written as a trace for TLC.
//	memlimiter conc <cfg.json> <scripts.ndjson> <trace.ndjson> users...
//	    concurrent start/shutdown choreographies (conc.go); recorded for TLC, nothing is judged here.
//	memlimiter wrap <cfg.json> <behaviours.ndjson> <result.json>
//	    scripts over start/shutdown/tcheck/consume/ext replayed on the real processors created by one
//	    memorylimiterprocessor factory for one configuration (or on the real extension), driven by
//	    the limiter's own ticker; compared step by step with the specified observations.
package main

import (
	"bufio"
	"bytes"
	"context"
	"encoding/json"
	"errors"
	"fmt"
	"os"
	"runtime"
	"runtime/metrics"
	"sync"
	"time"

	"go.uber.org/zap"

	"go.opentelemetry.io/collector/component"
	"go.opentelemetry.io/collector/component/componenttest"
	"go.opentelemetry.io/collector/consumer"
	"go.opentelemetry.io/collector/consumer/xconsumer"
	"go.opentelemetry.io/collector/consumer/consumererror"
	"go.opentelemetry.io/collector/extension/extensiontest"
	"go.opentelemetry.io/collector/extension/memorylimiterextension"
	"go.opentelemetry.io/collector/internal/memorylimiter"
	"go.opentelemetry.io/collector/pdata/plog"
	"go.opentelemetry.io/collector/pdata/pmetric"
	"go.opentelemetry.io/collector/pdata/ptrace"
	"go.opentelemetry.io/collector/pdata/pprofile"
	"go.opentelemetry.io/collector/processor/memorylimiterprocessor"
	"go.opentelemetry.io/collector/processor"
	"go.opentelemetry.io/collector/processor/xprocessor"
)

type cfgT struct {
	Kind    string `json:"kind"`  // fixed | percent
	Limit   uint32 `json:"limit"` // MiB or percent
	Spike   uint32 `json:"spike"`
	Total   uint64 `json:"total"`   // memory units, for percent
	Unit    int64  `json:"unit"`    // bytes per memory unit of the scripts (0 = 1): readings and total are multiplied by it
	SoftNs  int64  `json:"soft_ns"` // min_gc_interval_when_soft_limited
	HardNs  int64  `json:"hard_ns"`
	UnitNs  int64  `json:"unit_ns"`  // real duration of one time unit (timed)
	CheckNs int64  `json:"check_ns"` // check_interval
	Par     int    `json:"par"`
	Ext     bool   `json:"ext"` // wrap: users are extensions
}

type step struct {
	K         string `json:"k"`
	D         int64  `json:"d"`
	R         int64  `json:"r"`
	A         int64  `json:"a"`
	GC        bool   `json:"gc"`
	Refuse    bool   `json:"refuse"`
	U         string `json:"u"`
	Res       string `json:"res"`
	Err       string `json:"err"`
	Permanent bool   `json:"permanent"`
	Forwarded int    `json:"forwarded"`
	Running   bool   `json:"running"`
	Answer    bool   `json:"answer"`
}

type mismatch struct {
	Beh   int    `json:"beh"`
	Step  int    `json:"step"`
	Field string `json:"field"`
	Want  string `json:"want"`
	Got   string `json:"got"`
	Steps []step `json:"steps"`
}

var t0 = time.Now()

func nowUs() int64 { return int64(time.Since(t0) / time.Microsecond) }

var forcedSample = []metrics.Sample{{Name: "/gc/cycles/forced:gc-cycles"}}
var forcedMu sync.Mutex

func forced() uint64 {
	forcedMu.Lock()
	defer forcedMu.Unlock()
	metrics.Read(forcedSample)
	return forcedSample[0].Value.Uint64()
}

func (c cfgT) config() *memorylimiter.Config {
	cfg := &memorylimiter.Config{
		CheckInterval:                time.Duration(c.CheckNs),
		MinGCIntervalWhenSoftLimited: time.Duration(c.SoftNs),
		MinGCIntervalWhenHardLimited: time.Duration(c.HardNs),
	}
	if c.Kind == "fixed" {
		cfg.MemoryLimitMiB, cfg.MemorySpikeLimitMiB = c.Limit, c.Spike
	} else {
		cfg.MemoryLimitPercentage, cfg.MemorySpikePercentage = c.Limit, c.Spike
	}
	return cfg
}

// construction is serialised: ReadMemStatsFn / GetMemoryFn are package variables captured by
// NewMemoryLimiter.
var mkMu sync.Mutex

func withHooks(c cfgT, read func(*runtime.MemStats), f func() error) error {
	mkMu.Lock()
	defer mkMu.Unlock()
	oldR, oldG := memorylimiter.ReadMemStatsFn, memorylimiter.GetMemoryFn
	memorylimiter.ReadMemStatsFn = read
	memorylimiter.GetMemoryFn = func() (uint64, error) { return c.Total * uint64(unit), nil }
	defer func() { memorylimiter.ReadMemStatsFn, memorylimiter.GetMemoryFn = oldR, oldG }()
	return f()
}

func readBehaviours(path string, each func(n int, beh []step) error) error {
	f, err := os.Open(path)
	if err != nil {
		return err
	}
	defer f.Close()
	sc := bufio.NewScanner(f)
	sc.Buffer(make([]byte, 1<<20), 1<<26)
	n := 0
	for sc.Scan() {
		if len(bytes.TrimSpace(sc.Bytes())) == 0 {
			continue
		}
		var beh []step
		if err := json.Unmarshal(sc.Bytes(), &beh); err != nil {
			return fmt.Errorf("line %d: %w", n+1, err)
		}
		if err := each(n, beh); err != nil {
			return err
		}
		n++
	}
	return sc.Err()
}

// ---------------------------------------------------------------- scripted readings for one check
type reader struct {
	r, a      int64
	reads     int
	t1, t2    int64  // instants of the first / second read (us)
	forcedAt2 uint64 // forced-GC counter seen by the second read
	extra     int    // reads beyond the second
}

func (s *reader) begin(r, a int64) {
	if a >= 0 {
		a *= unit
	}
	*s = reader{r: r * unit, a: a}
}

// bytes per memory unit of the scripts (cfg.unit)
var unit int64 = 1

func (s *reader) read(ms *runtime.MemStats) {
	s.reads++
	switch s.reads {
	case 1:
		s.t1 = nowUs()
		ms.Alloc = uint64(s.r)
	case 2:
		s.forcedAt2 = forced()
		s.t2 = nowUs()
		if s.a >= 0 {
			ms.Alloc = uint64(s.a)
		} else {
			ms.Alloc = uint64(s.r)
		}
	default:
		s.extra++
		if s.a >= 0 {
			ms.Alloc = uint64(s.a)
		} else {
			ms.Alloc = uint64(s.r)
		}
	}
}

func b2s(b bool) string { return fmt.Sprint(b) }

// ---------------------------------------------------------------- mode: checks (untimed, compared)
func runChecks(c cfgT, in, out string) error {
	var mism []mismatch
	nb, ns, ngc := 0, 0, 0
	err := readBehaviours(in, func(n int, beh []step) error {
		rd := &reader{}
		var ml *memorylimiter.MemoryLimiter
		if err := withHooks(c, func(ms *runtime.MemStats) { rd.read(ms) }, func() error {
			cfg := c.config()
			if err := cfg.Validate(); err != nil {
				return fmt.Errorf("configuration rejected by Validate: %w", err)
			}
			var err error
			ml, err = memorylimiter.NewMemoryLimiter(cfg, zap.NewNop())
			return err
		}); err != nil {
			return err
		}
		nb++
		last := time.Now()
		for k, st := range beh {
			if st.K != "check" {
				return fmt.Errorf("behaviour %d step %d: unexpected step kind %q", n, k, st.K)
			}
			for time.Since(last) < 2*time.Microsecond { // elapsed time is strictly positive
			}
			rd.begin(st.R, st.A)
			f0 := forced()
			ml.CheckMemLimits()
			f1 := forced()
			last = time.Now()
			ns++
			gcs := int(f1 - f0)
			ngc += gcs
			bad := func(field, want, got string) {
				if len(mism) < 50 {
					mism = append(mism, mismatch{Beh: n, Step: k, Field: field, Want: want, Got: got, Steps: beh})
				}
			}
			wantReads := 1
			if st.GC {
				wantReads = 2
			}
			switch {
			case ml.MustRefuse() != st.Refuse:
				bad("refuse", b2s(st.Refuse), b2s(ml.MustRefuse()))
			case (gcs > 0) != st.GC || gcs > 1:
				bad("gc", b2s(st.GC), fmt.Sprintf("%d forced collections", gcs))
			case rd.reads != wantReads:
				bad("reads", fmt.Sprint(wantReads), fmt.Sprint(rd.reads))
			case st.GC && rd.forcedAt2 <= f0:
				bad("remeasure", "second reading after the collection", "second reading before the collection")
			default:
				continue
			}
			break
		}
		return nil
	})
	if err != nil {
		return err
	}
	return writeJSON(out, map[string]any{"behaviours": nb, "steps": ns, "gcs": ngc, "mismatches": mism})
}

func writeJSON(path string, v any) error {
	b, err := json.Marshal(v)
	if err != nil {
		return err
	}
	return os.WriteFile(path, b, 0o644)
}

// ---------------------------------------------------------------- mode: timed (recorded for TLC)
type tev struct {
	Ev     string `json:"ev"`
	Sid    int    `json:"sid"`
	C0     int64  `json:"c0,omitempty"`
	C1     int64  `json:"c1,omitempty"`
	R      int64  `json:"r"`
	A      int64  `json:"a"`
	Reads  int    `json:"reads"`
	Gcs    int    `json:"gcs"`
	Fresh  bool   `json:"fresh"`
	T1     int64  `json:"t1"`
	T2     int64  `json:"t2"`
	Te     int64  `json:"te"`
	Refuse bool   `json:"refuse"`
}

func runTimed(c cfgT, in, out string) error {
	var all [][]step
	if err := readBehaviours(in, func(_ int, beh []step) error { all = append(all, beh); return nil }); err != nil {
		return err
	}
	traces := make([][]tev, len(all))
	errs := make([]error, len(all))
	var gcMu sync.Mutex // forced collections are process wide: one check at a time, sleeping is outside
	sem := make(chan struct{}, max(c.Par, 1))
	var wg sync.WaitGroup
	for i := range all {
		wg.Add(1)
		sem <- struct{}{}
		go func(i int) {
			defer wg.Done()
			defer func() { <-sem }()
			rd := &reader{}
			var ml *memorylimiter.MemoryLimiter
			var c0, c1 int64
			errs[i] = withHooks(c, func(ms *runtime.MemStats) { rd.read(ms) }, func() error {
				cfg := c.config()
				if err := cfg.Validate(); err != nil {
					return fmt.Errorf("configuration rejected by Validate: %w", err)
				}
				var err error
				c0 = nowUs()
				ml, err = memorylimiter.NewMemoryLimiter(cfg, zap.NewNop())
				c1 = nowUs() + 1
				return err
			})
			if errs[i] != nil {
				return
			}
			tr := []tev{{Ev: "reset", Sid: i, C0: c0, C1: c1}}
			for _, st := range all[i] {
				time.Sleep(time.Duration(st.D * c.UnitNs))
				gcMu.Lock()
				rd.begin(st.R, st.A)
				f0 := forced()
				ml.CheckMemLimits()
				te := nowUs() + 1
				f1 := forced()
				refuse := ml.MustRefuse()
				gcMu.Unlock()
				tr = append(tr, tev{Ev: "check", Sid: i, R: st.R, A: st.A, Reads: rd.reads, Gcs: int(f1 - f0),
					Fresh: rd.reads < 2 || rd.forcedAt2 > f0, T1: rd.t1, T2: rd.t2 + 1, Te: te, Refuse: refuse})
			}
			traces[i] = tr
		}(i)
	}
	wg.Wait()
	for _, e := range errs {
		if e != nil {
			return e
		}
	}
	f, err := os.Create(out)
	if err != nil {
		return err
	}
	defer f.Close()
	w := bufio.NewWriter(f)
	defer w.Flush()
	enc := json.NewEncoder(w)
	for _, tr := range traces {
		for _, e := range tr {
			if err := enc.Encode(e); err != nil {
				return err
			}
		}
	}
	return enc.Encode(map[string]any{"ev": "end"})
}

// ---------------------------------------------------------------- mode: wrap
type system struct {
	mu     sync.Mutex
	cur    uint64
	nreads int64
	hook   func() // conc mode: called at the beginning of every read (may block: a held check)
}

func (s *system) read(ms *runtime.MemStats) {
	if s.hook != nil {
		s.hook()
	}
	s.mu.Lock()
	ms.Alloc = s.cur
	s.nreads++
	s.mu.Unlock()
}

func (s *system) set(v uint64) int64 {
	s.mu.Lock()
	defer s.mu.Unlock()
	s.cur = v
	return s.nreads
}

func (s *system) count() int64 {
	s.mu.Lock()
	defer s.mu.Unlock()
	return s.nreads
}

// waitReads waits until the read counter exceeds n0 by at least k, at most for d.
func (s *system) waitReads(n0, k int64, d time.Duration) bool {
	dl := time.Now().Add(d)
	for {
		if s.count() >= n0+k {
			return true
		}
		if time.Now().After(dl) {
			return false
		}
		time.Sleep(200 * time.Microsecond)
	}
}

const (
	aliveBound = 10 * time.Second      // a running checker must show a check within this bound
	quietWin   = 30 * time.Millisecond // a stopped checker must stay silent for this long (30 ticks)
)

var (
	errDownstream     = errors.New("downstream failed")
	errDownstreamPerm = consumererror.NewPermanent(errors.New("downstream failed permanently"))
)

type sink struct {
	res  string
	got  [][]byte
	seen int
}

func (s *sink) result() error {
	switch s.res {
	case "ok":
		return nil
	case "perm":
		return errDownstreamPerm
	default:
		return errDownstream
	}
}

type user struct {
	comp    component.Component
	consume func(ctx context.Context, sk *sink) (err error, before, after []byte)
	refuse  func() bool
	sk      *sink
}

func mustBytes(b []byte, err error) []byte {
	if err != nil {
		panic(err)
	}
	return b
}

func buildUsers(c cfgT, sys *system, names []string) (map[string]*user, error) {
	users := map[string]*user{}
	err := withHooks(c, sys.read, func() error {
		cfg := c.config()
		if err := cfg.Validate(); err != nil {
			return fmt.Errorf("configuration rejected by Validate: %w", err)
		}
		ctx := context.Background()
		if c.Ext {
			f := memorylimiterextension.NewFactory()
			for _, n := range names {
				e, err := f.Create(ctx, extensiontest.NewNopSettings(f.Type()), cfg)
				if err != nil {
					return err
				}
				mr, ok := e.(interface{ MustRefuse() bool })
				if !ok {
					return errors.New("extension has no MustRefuse")
				}
				users[n] = &user{comp: e, refuse: mr.MustRefuse}
				break // one extension = one limiter; only the first name is used
			}
			return nil
		}
		f := memorylimiterprocessor.NewFactory()
		set := processor.Settings{ID: component.NewID(f.Type()), TelemetrySettings: componenttest.NewNopTelemetrySettings(),
			BuildInfo: component.NewDefaultBuildInfo()}
		for _, n := range names {
			sk := &sink{}
			u := &user{sk: sk}
			switch n {
			case "logs":
				lm := &plog.ProtoMarshaler{}
				next, _ := consumer.NewLogs(func(_ context.Context, ld plog.Logs) error {
					sk.got = append(sk.got, mustBytes(lm.MarshalLogs(ld)))
					return sk.result()
				})
				p, err := f.CreateLogs(ctx, set, cfg, next)
				if err != nil {
					return err
				}
				u.comp = p
				u.consume = func(ctx context.Context, _ *sink) (error, []byte, []byte) {
					ld := genLogs()
					before := mustBytes(lm.MarshalLogs(ld))
					err := p.ConsumeLogs(ctx, ld)
					return err, before, mustBytes(lm.MarshalLogs(ld))
				}
			case "metrics":
				mm := &pmetric.ProtoMarshaler{}
				next, _ := consumer.NewMetrics(func(_ context.Context, md pmetric.Metrics) error {
					sk.got = append(sk.got, mustBytes(mm.MarshalMetrics(md)))
					return sk.result()
				})
				p, err := f.CreateMetrics(ctx, set, cfg, next)
				if err != nil {
					return err
				}
				u.comp = p
				u.consume = func(ctx context.Context, _ *sink) (error, []byte, []byte) {
					md := genMetrics()
					before := mustBytes(mm.MarshalMetrics(md))
					err := p.ConsumeMetrics(ctx, md)
					return err, before, mustBytes(mm.MarshalMetrics(md))
				}
			case "traces":
				tm := &ptrace.ProtoMarshaler{}
				next, _ := consumer.NewTraces(func(_ context.Context, td ptrace.Traces) error {
					sk.got = append(sk.got, mustBytes(tm.MarshalTraces(td)))
					return sk.result()
				})
				p, err := f.CreateTraces(ctx, set, cfg, next)
				if err != nil {
					return err
				}
				u.comp = p
				u.consume = func(ctx context.Context, _ *sink) (error, []byte, []byte) {
					td := genTraces()
					before := mustBytes(tm.MarshalTraces(td))
					err := p.ConsumeTraces(ctx, td)
					return err, before, mustBytes(tm.MarshalTraces(td))
				}
			case "profiles":
				pm := &pprofile.ProtoMarshaler{}
				next, _ := xconsumer.NewProfiles(func(_ context.Context, pd pprofile.Profiles) error {
					sk.got = append(sk.got, mustBytes(pm.MarshalProfiles(pd)))
					return sk.result()
				})
				xf, ok := f.(xprocessor.Factory)
				if !ok {
					return fmt.Errorf("memory limiter processor factory does not build profiles processors")
				}
				p, err := xf.CreateProfiles(ctx, set, cfg, next)
				if err != nil {
					return err
				}
				u.comp = p
				u.consume = func(ctx context.Context, _ *sink) (error, []byte, []byte) {
					pd := genProfiles()
					before := mustBytes(pm.MarshalProfiles(pd))
					err := p.ConsumeProfiles(ctx, pd)
					return err, before, mustBytes(pm.MarshalProfiles(pd))
				}
			default:
				return fmt.Errorf("unknown user %q", n)
			}
			users[n] = u
		}
		return nil
	})
	return users, err
}

func genLogs() plog.Logs {
	ld := plog.NewLogs()
	rl := ld.ResourceLogs().AppendEmpty()
	rl.SetSchemaUrl("https://r")
	rl.Resource().Attributes().PutStr("host", "h1")
	sl := rl.ScopeLogs().AppendEmpty()
	sl.Scope().SetName("scope")
	for i := 0; i < 3; i++ {
		lr := sl.LogRecords().AppendEmpty()
		lr.Body().SetStr(fmt.Sprintf("record %d", i))
		lr.Attributes().PutInt("i", int64(i))
		lr.SetSeverityText("INFO")
	}
	return ld
}

func genMetrics() pmetric.Metrics {
	md := pmetric.NewMetrics()
	rm := md.ResourceMetrics().AppendEmpty()
	rm.Resource().Attributes().PutStr("host", "h1")
	sm := rm.ScopeMetrics().AppendEmpty()
	sm.Scope().SetName("scope")
	m := sm.Metrics().AppendEmpty()
	m.SetName("requests")
	m.SetUnit("1")
	s := m.SetEmptySum()
	s.SetIsMonotonic(true)
	s.SetAggregationTemporality(pmetric.AggregationTemporalityCumulative)
	for i := 0; i < 3; i++ {
		dp := s.DataPoints().AppendEmpty()
		dp.SetIntValue(int64(i))
		dp.Attributes().PutInt("i", int64(i))
	}
	g := sm.Metrics().AppendEmpty()
	g.SetName("load")
	g.SetEmptyGauge().DataPoints().AppendEmpty().SetDoubleValue(0.5)
	return md
}

func genProfiles() pprofile.Profiles {
	pd := pprofile.NewProfiles()
	rp := pd.ResourceProfiles().AppendEmpty()
	rp.Resource().Attributes().PutStr("host", "h1")
	sp := rp.ScopeProfiles().AppendEmpty()
	sp.Scope().SetName("scope")
	for i := 0; i < 2; i++ {
		pr := sp.Profiles().AppendEmpty()
		pr.SetDroppedAttributesCount(uint32(i + 1))
		pr.Sample().AppendEmpty().SetLocationsLength(int32(i + 1))
	}
	return pd
}

func genTraces() ptrace.Traces {
	td := ptrace.NewTraces()
	rs := td.ResourceSpans().AppendEmpty()
	rs.Resource().Attributes().PutStr("host", "h1")
	ss := rs.ScopeSpans().AppendEmpty()
	ss.Scope().SetName("scope")
	for i := 0; i < 3; i++ {
		sp := ss.Spans().AppendEmpty()
		sp.SetName(fmt.Sprintf("span %d", i))
		sp.Attributes().PutInt("i", int64(i))
		sp.Events().AppendEmpty().SetName("ev")
	}
	return td
}

func runWrap(c cfgT, in, out string, names []string) error {
	var all [][]step
	if err := readBehaviours(in, func(_ int, beh []step) error { all = append(all, beh); return nil }); err != nil {
		return err
	}
	f0 := forced()
	var mu sync.Mutex
	var mism []mismatch
	var firstErr error
	nsteps := 0
	sem := make(chan struct{}, max(c.Par, 1))
	var wg sync.WaitGroup
	for i := range all {
		wg.Add(1)
		sem <- struct{}{}
		go func(i int) {
			defer wg.Done()
			defer func() { <-sem }()
			m, n, err := wrapOne(c, i, all[i], names)
			mu.Lock()
			defer mu.Unlock()
			nsteps += n
			if err != nil && firstErr == nil {
				firstErr = err
			}
			if m != nil && len(mism) < 50 {
				mism = append(mism, *m)
			}
		}(i)
	}
	wg.Wait()
	if firstErr != nil {
		return firstErr
	}
	return writeJSON(out, map[string]any{"behaviours": len(all), "steps": nsteps, "mismatches": mism,
		"forced_gcs": forced() - f0})
}

func wrapOne(c cfgT, idx int, beh []step, names []string) (*mismatch, int, error) {
	sys := &system{}
	users, err := buildUsers(c, sys, names)
	if err != nil {
		return nil, 0, err
	}
	ctx := context.Background()
	host := componenttest.NewNopHost()
	started := map[string]bool{}
	defer func() {
		for n := range started {
			_ = users[n].comp.Shutdown(ctx)
		}
	}()
	bad := func(k int, field, want, got string) *mismatch {
		return &mismatch{Beh: idx, Step: k, Field: field, Want: want, Got: got, Steps: beh}
	}
	pick := func(n string) *user {
		if c.Ext {
			for _, u := range users {
				return u
			}
		}
		return users[n]
	}
	for k, st := range beh {
		switch st.K {
		case "start":
			if err := startC(func(sc context.Context) error { return pick(st.U).comp.Start(sc, host) }); err != nil {
				return bad(k, "start", "nil", err.Error()), k, nil
			}
			started[st.U] = true
		case "shutdown":
			if err := pick(st.U).comp.Shutdown(ctx); err != nil {
				return bad(k, "shutdown", "nil", err.Error()), k, nil
			}
			delete(started, st.U)
		case "tcheck":
			n0 := sys.set(uint64(st.R * unit))
			// the check that performs read n0+1 sees the new value; it is complete when a later
			// check begins (2 further reads leave room for a re-measurement inside it)
			if !sys.waitReads(n0, 3, aliveBound) {
				return bad(k, "running", "true", "no memory check within 10s although users are started"), k, nil
			}
		case "consume":
			u := pick(st.U)
			u.sk.res = st.Res
			u.sk.got = u.sk.got[:0]
			err, before, after := u.consume(ctx, u.sk)
			cls := "refused"
			switch {
			case err == nil:
				cls = "ok"
			case st.Res == "err" && errors.Is(err, errDownstream):
				cls = "err"
			case st.Res == "perm" && errors.Is(err, errDownstreamPerm):
				cls = "perm"
			}
			switch {
			case cls != st.Err:
				return bad(k, "err", st.Err, fmt.Sprintf("%s (%v)", cls, err)), k, nil
			case err != nil && consumererror.IsPermanent(err) != st.Permanent:
				return bad(k, "permanent", b2s(st.Permanent), b2s(consumererror.IsPermanent(err))), k, nil
			case len(u.sk.got) != st.Forwarded:
				return bad(k, "forwarded", fmt.Sprint(st.Forwarded), fmt.Sprint(len(u.sk.got))), k, nil
			case st.Forwarded == 1 && !bytes.Equal(u.sk.got[0], before):
				return bad(k, "intact", "payload forwarded unmodified", "forwarded payload differs from the input"), k, nil
			case !bytes.Equal(before, after):
				return bad(k, "intact", "input unmodified", "input modified by the processor"), k, nil
			}
		case "ext":
			if got := pick(st.U).refuse(); got != st.Answer {
				return bad(k, "answer", b2s(st.Answer), b2s(got)), k, nil
			}
		default:
			return nil, k, fmt.Errorf("behaviour %d step %d: unexpected step kind %q", idx, k, st.K)
		}
		// is the shared checker running?  A read of the memory statistics is the positive proof.
		n0 := sys.count()
		var running bool
		if st.Running {
			running = sys.waitReads(n0, 1, aliveBound)
		} else {
			running = sys.waitReads(n0, 1, quietWin)
		}
		if running != st.Running {
			return bad(k, "running", b2s(st.Running), b2s(running)), k, nil
		}
	}
	return nil, len(beh), nil
}

func main() {
	if len(os.Args) < 5 {
		fmt.Fprintln(os.Stderr, "usage: memlimiter checks|timed|wrap|conc <cfg.json> <behaviours.ndjson> <out> [users...]")
		os.Exit(3)
	}
	var c cfgT
	b, err := os.ReadFile(os.Args[2])
	if err == nil {
		err = json.Unmarshal(b, &c)
	}
	if err == nil {
		if c.CheckNs == 0 {
			c.CheckNs = int64(time.Hour)
		}
		if c.Unit > 0 {
			unit = c.Unit
		}
		switch os.Args[1] {
		case "checks":
			err = runChecks(c, os.Args[3], os.Args[4])
		case "timed":
			err = runTimed(c, os.Args[3], os.Args[4])
		case "wrap":
			err = runWrap(c, os.Args[3], os.Args[4], os.Args[5:])
		case "conc":
			err = runConc(c, os.Args[3], os.Args[4], os.Args[5:])
		default:
			err = fmt.Errorf("unknown mode %q", os.Args[1])
		}
	}
	if err != nil {
		fmt.Fprintln(os.Stderr, err)
		os.Exit(3)
	}
}
