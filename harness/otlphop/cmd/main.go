// Conformance driver for C15 (OTLP exporter -> OTLP receiver hop).
//
//	otlphop run <plan.ndjson> <observed.ndjson> <seed> <workers>
//
// Every plan line is one abstract request of the protocol machine (specs/OtlpHop/OtlpHop.tla, enumerated by
// TLC): {id, transport, via, signal, media, comp, auth, method, wellformed, items, recv, outcome{kind,code,ri,wrap}}.
// It is realised over loopback with
//   - the real receiver/otlpreceiver factory (gRPC + HTTP servers) in three configurations ("off": no
//     authenticator, "auth": a test server authenticator extension, "restricted": compression_algorithms
//     ["", "gzip"]) and ONE scripted next consumer that finds the outcome to return in a table keyed by the
//     case id carried in the payload (resource attribute verif.case),
//   - via = "exporter": the real exporter/otlpexporter or exporter/otlphttpexporter factory, retry and queue
//     disabled, so that the error returned by ConsumeX is the exporter's classification of the response
//     (consumererror.IsPermanent / throttle-retry error / plain error); the wire response is recorded by a
//     tap registered as a client middleware extension (extensionmiddleware) -- HTTP: status, Retry-After,
//     google.rpc.Status of the body; gRPC: status code and RetryInfo,
//   - via = "raw": a hand-made HTTP request (sent through a confighttp client that applies the compression)
//     or a raw gRPC call, for malformed bodies, wrong media type, wrong method, empty requests.
//
// One observation line per plan line is written; the driver compares nothing itself: the clauses of the
// statement are evaluated by TLC (HopMonitor.tla).
package main

import (
	"bufio"
	"bytes"
	"context"
	"encoding/json"
	"errors"
	"fmt"
	"io"
	"math/rand"
	"net"
	"net/http"
	"os"
	"reflect"
	"strconv"
	"strings"
	"sync"
	"sync/atomic"
	"time"

	"google.golang.org/genproto/googleapis/rpc/errdetails"
	spb "google.golang.org/genproto/googleapis/rpc/status"
	"google.golang.org/grpc"
	"google.golang.org/grpc/codes"
	"google.golang.org/grpc/credentials/insecure"
	"google.golang.org/grpc/metadata"
	"google.golang.org/grpc/status"
	"google.golang.org/protobuf/proto"
	"google.golang.org/protobuf/types/known/durationpb"

	"go.opentelemetry.io/collector/component"
	"go.opentelemetry.io/collector/component/componenttest"
	"go.opentelemetry.io/collector/config/configauth"
	"go.opentelemetry.io/collector/config/configcompression"
	"go.opentelemetry.io/collector/pdata/pcommon"
	"go.opentelemetry.io/collector/pdata/plog"
	"go.opentelemetry.io/collector/pdata/pmetric"
	"go.opentelemetry.io/collector/pdata/pprofile"
	"go.opentelemetry.io/collector/pdata/ptrace"
	"go.opentelemetry.io/collector/config/configgrpc"
	"go.opentelemetry.io/collector/config/confighttp"
	"go.opentelemetry.io/collector/config/configmiddleware"
	"go.opentelemetry.io/collector/config/configopaque"
	"go.opentelemetry.io/collector/config/configtls"
	"go.opentelemetry.io/collector/consumer/consumererror"
	"go.opentelemetry.io/collector/exporter/exportertest"
	"go.opentelemetry.io/collector/exporter/otlpexporter"
	"go.opentelemetry.io/collector/exporter/otlphttpexporter"
	"go.opentelemetry.io/collector/receiver/otlpreceiver"
	"go.opentelemetry.io/collector/receiver/receivertest"
)

// ------------------------------------------------------------------------------------ plan / observation

type outcome struct {
	Kind string `json:"kind"` // nil | perm | trans | status
	Code string `json:"code"` // gRPC code name (status)
	RI   int64  `json:"ri"`   // RetryInfo delay in ms, -1 = no RetryInfo
	Wrap string `json:"wrap"` // "no" | "perm" | "fmt": the status error is wrapped by consumererror.NewPermanent / fmt.Errorf("%w")
}

type planLine struct {
	ID         int     `json:"id"`
	Transport  string  `json:"transport"`
	Via        string  `json:"via"`
	Signal     string  `json:"signal"`
	Media      string  `json:"media"`
	Comp       string  `json:"comp"`
	Auth       string  `json:"auth"`
	Method     string  `json:"method"`
	Wellformed bool    `json:"wellformed"`
	Items      string  `json:"items"`
	Recv       string  `json:"recv"` // peer: the real receiver in configuration off | auth | restricted, or "stub"
	Big        bool    `json:"big,omitempty"`    // the payload is padded to several hundred KiB (beyond one compressor block / window)
	CLevel     int     `json:"clevel,omitempty"` // exporter compression level (compression_params::level), 0 = the default
	Outcome    outcome `json:"outcome"`
	Stub       struct {
		Status int   `json:"status"`
		RA     int64 `json:"ra"` // Retry-After in ms, -1 = header absent
	} `json:"stub"`
}

type respRec struct {
	Kind       string `json:"kind"` // http | grpc | none
	Status     int    `json:"status"`
	Code       string `json:"code"`
	RetryAfter int64  `json:"retryAfter"`
	RI         int64  `json:"ri"`
}

type clsRec struct {
	Class string `json:"class"`
	Delay int64  `json:"delay"`
}

type obsRec struct {
	Consumed int     `json:"consumed"`
	Eq       bool    `json:"eq"`
	Resp     respRec `json:"resp"`
	Cls      clsRec  `json:"cls"`
}

type outLine struct {
	ID    int            `json:"id"`
	Obs   obsRec         `json:"obs"`
	Extra map[string]any `json:"extra"`
}

// ------------------------------------------------------------------------------------ gRPC code names

var codeNames = map[codes.Code]string{
	codes.OK: "OK", codes.Canceled: "CANCELLED", codes.Unknown: "UNKNOWN", codes.InvalidArgument: "INVALID_ARGUMENT",
	codes.DeadlineExceeded: "DEADLINE_EXCEEDED", codes.NotFound: "NOT_FOUND", codes.AlreadyExists: "ALREADY_EXISTS",
	codes.PermissionDenied: "PERMISSION_DENIED", codes.ResourceExhausted: "RESOURCE_EXHAUSTED",
	codes.FailedPrecondition: "FAILED_PRECONDITION", codes.Aborted: "ABORTED", codes.OutOfRange: "OUT_OF_RANGE",
	codes.Unimplemented: "UNIMPLEMENTED", codes.Internal: "INTERNAL", codes.Unavailable: "UNAVAILABLE",
	codes.DataLoss: "DATA_LOSS", codes.Unauthenticated: "UNAUTHENTICATED",
}

func codeName(c codes.Code) string {
	if n, ok := codeNames[c]; ok {
		return n
	}
	return fmt.Sprintf("CODE_%d", int(c))
}

func codeByName(n string) codes.Code {
	for c, s := range codeNames {
		if s == n {
			return c
		}
	}
	panic("unknown code " + n)
}

// ------------------------------------------------------------------------------------ scripted consumer

type script struct {
	out      outcome
	want     []byte // plain pdata proto bytes of what was sent
	consumed int
	eq       bool
	hint     string // when not equal: what differs, as far as the driver can tell
}

type scriptedConsumer struct {
	mu      sync.Mutex
	cases   map[string]*script
	unknown int64 // invocations that could not be attributed to a case
}

func (s *scriptedConsumer) register(id string, sc *script) {
	s.mu.Lock()
	s.cases[id] = sc
	s.mu.Unlock()
}

func (s *scriptedConsumer) take(id string) *script {
	s.mu.Lock()
	defer s.mu.Unlock()
	sc := s.cases[id]
	delete(s.cases, id)
	return sc
}

func (s *scriptedConsumer) consume(signal string, p any) error {
	ops := signals[signal]
	id := ops.caseID(p)
	got := ops.marshal(p)
	s.mu.Lock()
	sc := s.cases[id]
	if sc == nil {
		s.mu.Unlock()
		atomic.AddInt64(&s.unknown, 1)
		return nil
	}
	sc.consumed++
	sc.eq = bytes.Equal(got, sc.want)
	if !sc.eq {
		sc.hint = fmt.Sprintf("sent %d proto bytes, consumer got %d", len(sc.want), len(got))
	}
	out := sc.out
	s.mu.Unlock()
	return errorOf(out)
}

func errorOf(o outcome) error {
	switch o.Kind {
	case "nil":
		return nil
	case "perm":
		return consumererror.NewPermanent(errors.New("scripted permanent failure"))
	case "trans":
		return errors.New("scripted transient failure")
	case "status":
		st := status.New(codeByName(o.Code), "scripted status")
		if o.RI >= 0 {
			var err error
			st, err = st.WithDetails(&errdetails.RetryInfo{RetryDelay: durationpb.New(time.Duration(o.RI) * time.Millisecond)})
			must(err)
		}
		switch o.Wrap {
		case "perm":
			return consumererror.NewPermanent(st.Err())
		case "fmt":
			return fmt.Errorf("scripted wrapper: %w", st.Err())
		}
		return st.Err()
	}
	panic("outcome kind " + o.Kind)
}

// ------------------------------------------------------------------------------------ extensions: auth + tap

type nopComponent struct{}

func (nopComponent) Start(context.Context, component.Host) error { return nil }
func (nopComponent) Shutdown(context.Context) error              { return nil }

type serverAuth struct{ nopComponent }

func (serverAuth) Authenticate(ctx context.Context, sources map[string][]string) (context.Context, error) {
	for k, v := range sources {
		if strings.EqualFold(k, "authorization") && len(v) == 1 && v[0] == "Bearer good" {
			return ctx, nil
		}
	}
	return ctx, errors.New("scripted authenticator: credential rejected")
}

// tap is registered as a client middleware of ONE exporter instance and remembers the last wire response.
type tap struct {
	nopComponent
	mu   sync.Mutex
	last *respRec
	raw  map[string]any
}

func (t *tap) reset() {
	t.mu.Lock()
	t.last = nil
	t.raw = nil
	t.mu.Unlock()
}

func (t *tap) get() (*respRec, map[string]any) {
	t.mu.Lock()
	defer t.mu.Unlock()
	return t.last, t.raw
}

type tapRT struct {
	t    *tap
	base http.RoundTripper
}

func (rt tapRT) RoundTrip(req *http.Request) (*http.Response, error) {
	resp, err := rt.base.RoundTrip(req)
	if err != nil {
		return resp, err
	}
	body, _ := io.ReadAll(resp.Body)
	resp.Body.Close()
	resp.Body = io.NopCloser(bytes.NewReader(body))
	r, raw := httpResp(resp.StatusCode, resp.Header, body)
	raw["req_content_encoding"] = req.Header.Get("Content-Encoding")
	raw["req_content_type"] = req.Header.Get("Content-Type")
	rt.t.mu.Lock()
	rt.t.last, rt.t.raw = r, raw
	rt.t.mu.Unlock()
	return resp, nil
}

func (t *tap) GetHTTPRoundTripper(base http.RoundTripper) (http.RoundTripper, error) {
	return tapRT{t: t, base: base}, nil
}

func (t *tap) GetGRPCClientOptions() ([]grpc.DialOption, error) {
	return []grpc.DialOption{grpc.WithChainUnaryInterceptor(func(ctx context.Context, method string, req, reply any, cc *grpc.ClientConn, invoker grpc.UnaryInvoker, opts ...grpc.CallOption) error {
		err := invoker(ctx, method, req, reply, cc, opts...)
		r := grpcResp(err)
		t.mu.Lock()
		t.last, t.raw = r, map[string]any{}
		t.mu.Unlock()
		return err
	})}, nil
}

func riOf(st *status.Status) int64 {
	for _, d := range st.Details() {
		if ri, ok := d.(*errdetails.RetryInfo); ok {
			return int64(ri.GetRetryDelay().AsDuration() / time.Millisecond)
		}
	}
	return -1
}

func grpcResp(err error) *respRec {
	if err == nil {
		return &respRec{Kind: "grpc", Code: "OK", RI: -1, RetryAfter: -1}
	}
	st, _ := status.FromError(err)
	return &respRec{Kind: "grpc", Code: codeName(st.Code()), RI: riOf(st), RetryAfter: -1}
}

// httpResp abstracts an HTTP response: status, Retry-After (ms, -1 absent, -2 unparsable), and the code of the
// google.rpc.Status carried by the body ("none" if the body is not a Status in the announced content type).
func httpResp(code int, h http.Header, body []byte) (*respRec, map[string]any) {
	r := &respRec{Kind: "http", Status: code, Code: "none", RetryAfter: -1, RI: -1}
	raw := map[string]any{"content_type": h.Get("Content-Type")}
	if vals := h.Values("Retry-After"); len(vals) > 0 {
		raw["retry_after"] = vals[0]
		if s, err := strconv.ParseInt(vals[0], 10, 64); err == nil {
			r.RetryAfter = s * 1000
		} else {
			r.RetryAfter = -2
		}
	}
	if code >= 200 && code <= 299 {
		r.Code = "OK"
		return r, raw
	}
	switch strings.Split(h.Get("Content-Type"), ";")[0] {
	case "application/x-protobuf":
		var st spb.Status
		if err := proto.Unmarshal(body, &st); err == nil {
			r.Code = codeName(codes.Code(st.Code))
			raw["status_message"] = st.Message
			raw["status_details"] = len(st.Details)
		}
	case "application/json":
		var st struct {
			Code    *int   `json:"code"`
			Message string `json:"message"`
		}
		if err := json.Unmarshal(body, &st); err == nil {
			c := 0
			if st.Code != nil {
				c = *st.Code
			}
			r.Code = codeName(codes.Code(c))
			raw["status_message"] = st.Message
		}
	default:
		raw["body"] = string(body[:min(len(body), 120)])
	}
	return r, raw
}

// ------------------------------------------------------------------------------------ host

type host struct {
	ext map[component.ID]component.Component
}

func (h host) GetExtensions() map[component.ID]component.Component { return h.ext }

var (
	authID = component.MustNewID("verifauth")
	tapID  = component.MustNewID("veriftap")
)

// ------------------------------------------------------------------------------------ environment

type recvEnv struct {
	grpcAddr string
	httpAddr string
	comps    []component.Component
}

type expEnv struct {
	mu      sync.Mutex // one request at a time per exporter instance (the tap remembers the last response)
	tap     *tap
	stubKey string
	comp    component.Component
	consume func(context.Context, any) error
}

// stubServer is a scripted HTTP peer: the response for a request is looked up by the first path element,
// which identifies the exporter instance (one request at a time per exporter instance).
type stubServer struct {
	mu   sync.Mutex
	next map[string][2]int64 // exporter key -> (status, retry-after ms)
	addr string
}

func (s *stubServer) ServeHTTP(w http.ResponseWriter, r *http.Request) {
	_, _ = io.Copy(io.Discard, r.Body)
	parts := strings.SplitN(strings.TrimPrefix(r.URL.Path, "/"), "/", 2)
	s.mu.Lock()
	n, ok := s.next[parts[0]]
	s.mu.Unlock()
	if !ok {
		w.WriteHeader(599)
		return
	}
	if n[1] >= 0 {
		w.Header().Set("Retry-After", strconv.FormatInt(n[1]/1000, 10))
	}
	if n[0] >= 200 && n[0] <= 299 {
		w.WriteHeader(int(n[0]))
		return
	}
	// "The response body for all HTTP 4xx and HTTP 5xx responses MUST be a Protobuf-encoded Status message"
	body, _ := proto.Marshal(&spb.Status{Code: int32(codes.Unknown), Message: "scripted peer"})
	w.Header().Set("Content-Type", "application/x-protobuf")
	w.WriteHeader(int(n[0]))
	_, _ = w.Write(body)
}

type env struct {
	stub     *stubServer
	mu       sync.Mutex
	consumer *scriptedConsumer
	recvs    map[string]*recvEnv
	exps     map[string]*expEnv
	rawHTTP  map[string]*http.Client
	rawGRPC  map[string]*grpc.ClientConn
}

func freeAddr() string {
	l, err := net.Listen("tcp", "127.0.0.1:0")
	must(err)
	defer l.Close()
	return l.Addr().String()
}

func (e *env) startReceiver(variant string) (*recvEnv, error) {
	f := otlpreceiver.NewFactory()
	var lastErr error
	for attempt := 0; attempt < 20; attempt++ {
		cfg := f.CreateDefaultConfig().(*otlpreceiver.Config)
		re := &recvEnv{grpcAddr: freeAddr(), httpAddr: freeAddr()}
		cfg.GRPC.NetAddr.Endpoint = re.grpcAddr
		cfg.HTTP.ServerConfig.Endpoint = re.httpAddr
		switch variant {
		case "auth":
			cfg.GRPC.Auth = &configauth.Authentication{AuthenticatorID: authID}
			cfg.HTTP.ServerConfig.Auth = &confighttp.AuthConfig{Authentication: configauth.Authentication{AuthenticatorID: authID}}
		case "restricted":
			cfg.HTTP.ServerConfig.CompressionAlgorithms = []string{"", "gzip"}
		}
		h := host{ext: map[component.ID]component.Component{authID: serverAuth{}}}
		set := receivertest.NewNopSettings(f.Type())
		set.ID = component.MustNewIDWithName("otlp", variant+strconv.Itoa(attempt))
		ok := true
		for _, sig := range []string{"traces", "metrics", "logs", "profiles"} {
			c, err := signals[sig].newReceiver(context.Background(), f, set, cfg, e.consumer)
			if err != nil {
				return nil, err
			}
			re.comps = append(re.comps, c)
		}
		for _, c := range re.comps {
			if err := startC(func(sc context.Context) error { return c.Start(sc, h) }); err != nil {
				lastErr = err
				ok = false
				break
			}
		}
		if ok {
			return re, nil
		}
		for _, c := range re.comps {
			_ = c.Shutdown(context.Background())
		}
	}
	return nil, fmt.Errorf("could not start receiver %s: %w", variant, lastErr)
}

func authHeader(auth string) string {
	switch auth {
	case "good":
		return "Bearer good"
	case "bad":
		return "Bearer wrong"
	}
	return ""
}

func compType(comp string) configcompression.Type {
	if comp == "none" {
		return configcompression.Type("none")
	}
	var t configcompression.Type
	must(t.UnmarshalText([]byte(comp)))
	return t
}

func (e *env) exporter(p planLine) (*expEnv, error) {
	key := strings.Join([]string{p.Transport, p.Media, p.Comp, p.Auth, p.Recv, p.Signal, strconv.Itoa(p.CLevel)}, "|")
	e.mu.Lock()
	defer e.mu.Unlock()
	if x, ok := e.exps[key]; ok {
		return x, nil
	}
	re := e.recvs[p.Recv]
	stubKey := fmt.Sprintf("x%d", len(e.exps))
	if p.Recv == "stub" {
		re = &recvEnv{httpAddr: e.stub.addr + "/" + stubKey}
	}
	t := &tap{}
	h := host{ext: map[component.ID]component.Component{tapID: t}}
	hdrs := map[string]configopaque.String{}
	if a := authHeader(p.Auth); a != "" {
		hdrs["Authorization"] = configopaque.String(a)
	}
	ops := signals[p.Signal]
	x := &expEnv{tap: t, stubKey: stubKey}
	var err error
	if p.Transport == "grpc" {
		f := otlpexporter.NewFactory()
		cfg := f.CreateDefaultConfig().(*otlpexporter.Config)
		cfg.QueueConfig.Enabled = false
		cfg.RetryConfig.Enabled = false
		cfg.TimeoutConfig.Timeout = 20 * time.Second
		cfg.ClientConfig.Endpoint = re.grpcAddr
		cfg.ClientConfig.TLSSetting = configtls.ClientConfig{Insecure: true}
		cfg.ClientConfig.Compression = compType(p.Comp)
		cfg.ClientConfig.Headers = hdrs
		cfg.ClientConfig.Middlewares = []configmiddleware.Config{{ID: tapID}}
		x.comp, x.consume, err = ops.newExporter(context.Background(), f, exportertest.NewNopSettings(f.Type()), cfg)
	} else {
		f := otlphttpexporter.NewFactory()
		cfg := f.CreateDefaultConfig().(*otlphttpexporter.Config)
		cfg.QueueConfig.Enabled = false
		cfg.RetryConfig.Enabled = false
		cfg.ClientConfig.Endpoint = "http://" + re.httpAddr
		cfg.ClientConfig.Timeout = 20 * time.Second
		cfg.ClientConfig.Compression = compType(p.Comp)
		if p.CLevel != 0 {
			cfg.ClientConfig.CompressionParams = configcompression.CompressionParams{Level: configcompression.Level(p.CLevel)}
		}
		cfg.ClientConfig.Headers = hdrs
		cfg.ClientConfig.Middlewares = []configmiddleware.Config{{ID: tapID}}
		if p.Media == "json" {
			cfg.Encoding = otlphttpexporter.EncodingJSON
		} else {
			cfg.Encoding = otlphttpexporter.EncodingProto
		}
		x.comp, x.consume, err = ops.newExporter(context.Background(), f, exportertest.NewNopSettings(f.Type()), cfg)
	}
	if err != nil {
		return nil, err
	}
	if err := startC(func(sc context.Context) error { return x.comp.Start(sc, h) }); err != nil {
		return nil, err
	}
	e.exps[key] = x
	return x, nil
}

func (e *env) rawHTTPClient(comp string) (*http.Client, error) {
	e.mu.Lock()
	defer e.mu.Unlock()
	if c, ok := e.rawHTTP[comp]; ok {
		return c, nil
	}
	cfg := confighttp.NewDefaultClientConfig()
	cfg.Timeout = 20 * time.Second
	cfg.Compression = compType(comp)
	c, err := cfg.ToClient(context.Background(), componenttest.NewNopHost(), componenttest.NewNopTelemetrySettings())
	if err != nil {
		return nil, err
	}
	e.rawHTTP[comp] = c
	return c, nil
}

func (e *env) rawGRPCConn(addr, comp string) (*grpc.ClientConn, error) {
	key := addr + "|" + comp
	e.mu.Lock()
	defer e.mu.Unlock()
	if c, ok := e.rawGRPC[key]; ok {
		return c, nil
	}
	_ = configgrpc.NewDefaultClientConfig // importing configgrpc registers the snappy and zstd gRPC compressors
	opts := []grpc.DialOption{grpc.WithTransportCredentials(insecure.NewCredentials())}
	if comp != "none" {
		opts = append(opts, grpc.WithDefaultCallOptions(grpc.UseCompressor(comp)))
	}
	c, err := grpc.NewClient(addr, opts...)
	if err != nil {
		return nil, err
	}
	e.rawGRPC[key] = c
	return c, nil
}

// rawCodec sends bytes as they are under the content-subtype "proto".
type rawCodec struct{}

func (rawCodec) Marshal(v any) ([]byte, error) { return v.([]byte), nil }
func (rawCodec) Unmarshal(data []byte, v any) error {
	if p, ok := v.(*[]byte); ok {
		*p = append([]byte{}, data...)
	}
	return nil
}
func (rawCodec) Name() string { return "proto" }

// ------------------------------------------------------------------------------------ classification

// classify reads the exporter's verdict off the returned error: nil, permanent (consumererror.IsPermanent),
// throttle (the unexported exporterhelper throttleRetry error, found by type name; its delay field is read by
// reflection), otherwise retryable.
func classify(err error) clsRec {
	if err == nil {
		return clsRec{Class: "success"}
	}
	throttle := false
	var delay int64
	for e := err; e != nil; e = errors.Unwrap(e) {
		t := reflect.TypeOf(e)
		if t.Kind() == reflect.Struct && t.Name() == "throttleRetry" {
			throttle = true
			if f := reflect.ValueOf(e).FieldByName("delay"); f.IsValid() && f.CanInt() {
				delay = f.Int() / int64(time.Millisecond)
			}
			break
		}
	}
	perm := consumererror.IsPermanent(err)
	switch {
	case throttle && perm:
		return clsRec{Class: "permanent+throttle", Delay: delay}
	case throttle:
		return clsRec{Class: "throttle", Delay: delay}
	case perm:
		return clsRec{Class: "permanent"}
	}
	return clsRec{Class: "retryable"}
}

// ------------------------------------------------------------------------------------ one case

// Malformed bodies (syntactically broken in every variant, so that "malformed" is not a matter of opinion):
// proto: field 1 with wire type varint (field 1 is a repeated message) | a length prefix that exceeds the
// body | the well-formed request minus its last byte (cuts the last top-level field short);
// json: a fixed truncated object | the well-formed request cut in the middle | minus its closing brace.
func malformedBody(media string, valid []byte, variant int) []byte {
	if media == "json" {
		switch variant % 3 {
		case 0:
			return []byte(`{"resourceSpans": [{"x"`)
		case 1:
			return valid[:len(valid)/2]
		}
		return valid[:len(valid)-1]
	}
	switch variant % 3 {
	case 0:
		return []byte{0x08, 0x01}
	case 1:
		return []byte{0x0a, 0xff, 0x01, 0x00}
	}
	return valid[:len(valid)-1]
}

// runOne runs a case; a case whose request did not get an answer from the peer at all (connection trouble,
// not a status produced by the code under test) is tried again, and given up as "could not be run" after
// three attempts: it never becomes an observation.
func (e *env) runOne(p planLine, seed int64) (outLine, error) {
	var why string
	for attempt := 0; attempt < 3; attempt++ {
		out, noAnswer, err := e.attempt(p, seed)
		if err != nil {
			return out, err
		}
		if noAnswer == "" {
			if attempt > 0 {
				out.Extra["attempts"] = attempt + 1
			}
			return out, nil
		}
		why = noAnswer
		time.Sleep(200 * time.Millisecond)
	}
	return outLine{}, fmt.Errorf("no answer from the peer in 3 attempts: %s", why)
}

// transportTrouble recognises a gRPC failure produced by the client's transport rather than by the server:
// the scripted consumer and authenticator put "scripted" into every message they produce.
func transportTrouble(err error, consumed int) string {
	if err == nil || consumed != 0 {
		return ""
	}
	st, _ := status.FromError(err)
	switch st.Code() {
	case codes.Unavailable, codes.DeadlineExceeded, codes.Canceled:
		if !strings.Contains(err.Error(), "scripted") {
			return err.Error()
		}
	}
	return ""
}

func (e *env) attempt(p planLine, seed int64) (outLine, string, error) {
	ops := signals[p.Signal]
	if ops == nil {
		return outLine{}, "", fmt.Errorf("signal %q", p.Signal)
	}
	id := fmt.Sprintf("case-%d", p.ID)
	r := rand.New(rand.NewSource(seed*7919 + int64(p.ID)))
	payload := ops.gen(id, r, p.Items == "zero")
	if p.Big {
		pad(payload, r)
	}
	sc := &script{out: p.Outcome, want: ops.marshal(payload)}
	e.consumer.register(id, sc)
	re := e.recvs[p.Recv]
	if re == nil && p.Recv != "stub" {
		return outLine{}, "", fmt.Errorf("receiver variant %q", p.Recv)
	}
	ctx, cancel := context.WithTimeout(context.Background(), 30*time.Second)
	defer cancel()
	extra := map[string]any{}
	var o obsRec
	o.Resp = respRec{Kind: "none", Code: "none", RetryAfter: -1, RI: -1}
	o.Cls = clsRec{Class: "n/a"}
	unknownBefore := atomic.LoadInt64(&e.consumer.unknown)
	var rawGRPCErr error

	switch {
	case p.Via == "exporter":
		x, err := e.exporter(p)
		if err != nil {
			return outLine{}, "", fmt.Errorf("exporter: %w", err)
		}
		x.mu.Lock()
		x.tap.reset()
		if p.Recv == "stub" {
			e.stub.mu.Lock()
			e.stub.next[x.stubKey] = [2]int64{int64(p.Stub.Status), p.Stub.RA}
			e.stub.mu.Unlock()
		}
		err = x.consume(ctx, payload)
		resp, raw := x.tap.get()
		x.mu.Unlock()
		o.Cls = classify(err)
		if err != nil {
			extra["err"] = err.Error()
		}
		rawGRPCErr = err
		if resp != nil {
			o.Resp = *resp
			for k, v := range raw {
				extra[k] = v
			}
		}
	case p.Transport == "http":
		c, err := e.rawHTTPClient(p.Comp)
		if err != nil {
			return outLine{}, "", err
		}
		var body []byte
		// media "other": an unsupported media type.  Besides plainly foreign ones the family holds types that merely START
		// with a supported type (application/json-seq, application/x-protobuf-delimited ...): still unsupported -> 415 and the
		// consumer is not reached.  The body is a well-formed OTLP request in the encoding the name resembles, so a receiver
		// that matched the type by prefix would decode and deliver it (seeded change C15-7).
		otherType := ""
		if p.Media != "json" && p.Media != "proto" {
			fam := []string{"text/plain", "application/json-seq", "application/x-protobuf-delimited", "application/jsonl", "application/x-protobuffer",
				"application/json-patch+json", "application/xml", "application/jsonx; charset=utf-8", "application/x-protobuf2"}
			otherType = fam[(p.ID+int(seed))%len(fam)]
			extra["other_content_type"] = otherType
		}
		if p.Media == "json" || strings.HasPrefix(otherType, "application/json") {
			body = ops.reqJSON(payload)
		} else {
			body = ops.reqProto(payload)
		}
		if !p.Wellformed {
			body = malformedBody(p.Media, body, p.ID+int(seed))
			extra["malformed_variant"] = (p.ID + int(seed)) % 3
		}
		method := http.MethodPost
		if p.Method != "POST" {
			method = http.MethodPut
		}
		req, err := http.NewRequestWithContext(ctx, method, "http://"+re.httpAddr+ops.httpPath, bytes.NewReader(body))
		if err != nil {
			return outLine{}, "", err
		}
		switch p.Media {
		case "proto":
			req.Header.Set("Content-Type", "application/x-protobuf")
		case "json":
			req.Header.Set("Content-Type", "application/json")
		default:
			req.Header.Set("Content-Type", otherType)
		}
		if a := authHeader(p.Auth); a != "" {
			req.Header.Set("Authorization", a)
		}
		resp, err := c.Do(req)
		if err != nil {
			e.consumer.take(id)
			return outLine{}, "raw http request failed: " + err.Error(), nil
		}
		rb, _ := io.ReadAll(resp.Body)
		resp.Body.Close()
		rr, raw := httpResp(resp.StatusCode, resp.Header, rb)
		o.Resp = *rr
		for k, v := range raw {
			extra[k] = v
		}
	default: // raw gRPC
		cc, err := e.rawGRPCConn(re.grpcAddr, p.Comp)
		if err != nil {
			return outLine{}, "", err
		}
		if a := authHeader(p.Auth); a != "" {
			ctx = metadata.AppendToOutgoingContext(ctx, "authorization", a)
		}
		if p.Wellformed {
			err = ops.grpcExport(ctx, cc, payload)
		} else {
			var out []byte
			extra["malformed_variant"] = (p.ID + int(seed)) % 3
			err = cc.Invoke(ctx, ops.grpcMethod, malformedBody("proto", ops.reqProto(payload), p.ID+int(seed)), &out, grpc.ForceCodec(rawCodec{}))
		}
		o.Resp = *grpcResp(err)
		if err != nil {
			extra["err"] = err.Error()
		}
		rawGRPCErr = err
	}
	sc = e.consumer.take(id)
	o.Consumed = sc.consumed
	o.Eq = sc.eq
	if sc.hint != "" {
		extra["eq_hint"] = sc.hint
	}
	if !p.Wellformed {
		// a malformed body carries no case id: attribute unattributed consumer invocations (cases of this kind
		// are run one at a time)
		o.Consumed += int(atomic.LoadInt64(&e.consumer.unknown) - unknownBefore)
	}
	if p.Via == "exporter" && o.Resp.Kind == "none" {
		return outLine{}, fmt.Sprintf("the exporter got no response: %v", extra["err"]), nil
	}
	if p.Transport == "grpc" {
		if t := transportTrouble(rawGRPCErr, o.Consumed); t != "" {
			return outLine{}, t, nil
		}
	}
	return outLine{ID: p.ID, Obs: o, Extra: extra}, "", nil
}

func main() {
	if len(os.Args) < 6 || os.Args[1] != "run" {
		fmt.Fprintln(os.Stderr, "usage: otlphop run <plan.ndjson> <observed.ndjson> <seed> <workers>")
		os.Exit(2)
	}
	seed, _ := strconv.ParseInt(os.Args[4], 10, 64)
	workers, _ := strconv.Atoi(os.Args[5])
	var plan []planLine
	f, err := os.Open(os.Args[2])
	must(err)
	sc := bufio.NewScanner(f)
	sc.Buffer(make([]byte, 1<<20), 1<<20)
	for sc.Scan() {
		if len(bytes.TrimSpace(sc.Bytes())) == 0 {
			continue
		}
		var p planLine
		must(json.Unmarshal(sc.Bytes(), &p))
		plan = append(plan, p)
	}
	f.Close()

	e := &env{consumer: &scriptedConsumer{cases: map[string]*script{}}, recvs: map[string]*recvEnv{},
		exps: map[string]*expEnv{}, rawHTTP: map[string]*http.Client{}, rawGRPC: map[string]*grpc.ClientConn{}}
	sln, err := net.Listen("tcp", "127.0.0.1:0")
	must(err)
	e.stub = &stubServer{next: map[string][2]int64{}, addr: sln.Addr().String()}
	ssrv := &http.Server{Handler: e.stub}
	go func() { _ = ssrv.Serve(sln) }()
	defer ssrv.Close()
	for _, v := range []string{"off", "auth", "restricted"} {
		re, err := e.startReceiver(v)
		if err != nil {
			fmt.Fprintln(os.Stderr, err)
			os.Exit(3)
		}
		e.recvs[v] = re
	}

	out := make([]outLine, len(plan))
	errs := make([]error, len(plan))
	var par, seq []int
	for i, p := range plan {
		if p.Wellformed {
			par = append(par, i)
		} else {
			seq = append(seq, i)
		}
	}
	var wg sync.WaitGroup
	ch := make(chan int)
	for w := 0; w < workers; w++ {
		wg.Add(1)
		go func() {
			defer wg.Done()
			for i := range ch {
				out[i], errs[i] = e.runOne(plan[i], seed)
			}
		}()
	}
	for _, i := range par {
		ch <- i
	}
	close(ch)
	wg.Wait()
	for _, i := range seq { // malformed bodies: one at a time (see runOne)
		out[i], errs[i] = e.runOne(plan[i], seed)
	}
	unattributed := atomic.LoadInt64(&e.consumer.unknown)

	for _, x := range e.exps {
		_ = x.comp.Shutdown(context.Background())
	}
	for _, c := range e.rawGRPC {
		_ = c.Close()
	}
	for _, re := range e.recvs {
		for _, c := range re.comps {
			_ = c.Shutdown(context.Background())
		}
	}

	w, err := os.Create(os.Args[3])
	must(err)
	bw := bufio.NewWriter(w)
	bad := 0
	for i := range out {
		if errs[i] != nil {
			bad++
			if bad < 20 {
				fmt.Fprintf(os.Stderr, "case %d could not be run: %v\n", plan[i].ID, errs[i])
			}
			continue
		}
		b, _ := json.Marshal(out[i])
		bw.Write(b)
		bw.WriteByte('\n')
	}
	bw.Flush()
	w.Close()
	fmt.Printf("{\"unattributed_consumer_invocations\": %d, \"failed_to_run\": %d}\n", unattributed, bad)
	if bad > 0 {
		os.Exit(3)
	}
}

// pad inflates a payload to 300-900 KiB with a resource attribute that is partly repetitive and partly random text: larger
// than one block / the smallest window of every supported compressor, whatever the level ("any supported compression").
func pad(payload any, r *rand.Rand) {
	var m pcommon.Map
	switch x := payload.(type) {
	case ptrace.Traces:
		m = x.ResourceSpans().At(0).Resource().Attributes()
	case pmetric.Metrics:
		m = x.ResourceMetrics().At(0).Resource().Attributes()
	case plog.Logs:
		m = x.ResourceLogs().At(0).Resource().Attributes()
	case pprofile.Profiles:
		m = x.ResourceProfiles().At(0).Resource().Attributes()
	default:
		return
	}
	n := 300<<10 + r.Intn(600<<10)
	var b strings.Builder
	b.Grow(n + 64)
	const alpha = "abcdefghijklmnopqrstuvwxyzABCDEFGHIJKLMNOPQRSTUVWXYZ0123456789+/"
	for b.Len() < n {
		if r.Intn(3) == 0 {
			b.WriteString("the quick brown fox jumps over the lazy dog; ")
		} else {
			for i := 0; i < 48; i++ {
				b.WriteByte(alpha[r.Intn(len(alpha))])
			}
		}
	}
	m.PutStr("verif.pad", b.String())
}

// startC calls a component's Start with a context that is cancelled as soon as Start has returned: component.Component
// says that context "will be cancelled soon", so nothing that has to outlive Start may depend on it.
func startC(start func(context.Context) error) error {
	ctx, cancel := context.WithCancel(context.Background())
	defer cancel()
	return start(ctx)
}
