package main

import (
	"context"
	"fmt"
	"math"
	"math/rand"

	"google.golang.org/grpc"

	"go.opentelemetry.io/collector/component"
	"go.opentelemetry.io/collector/consumer"
	"go.opentelemetry.io/collector/consumer/xconsumer"
	"go.opentelemetry.io/collector/exporter"
	"go.opentelemetry.io/collector/exporter/xexporter"
	"go.opentelemetry.io/collector/pdata/pcommon"
	"go.opentelemetry.io/collector/pdata/plog"
	"go.opentelemetry.io/collector/pdata/plog/plogotlp"
	"go.opentelemetry.io/collector/pdata/pmetric"
	"go.opentelemetry.io/collector/pdata/pmetric/pmetricotlp"
	"go.opentelemetry.io/collector/pdata/pprofile"
	"go.opentelemetry.io/collector/pdata/pprofile/pprofileotlp"
	"go.opentelemetry.io/collector/pdata/ptrace"
	"go.opentelemetry.io/collector/pdata/ptrace/ptraceotlp"
	"go.opentelemetry.io/collector/receiver"
	"go.opentelemetry.io/collector/receiver/xreceiver"
)

const caseAttr = "verif.case"

// signalOps hides the four signal types behind `any` payloads.
type signalOps struct {
	name       string
	httpPath   string
	grpcMethod string
	// gen makes a payload whose first resource carries the case id; zero = no items at all
	gen func(id string, r *rand.Rand, zero bool) any
	// plain pdata proto bytes (used for equality)
	marshal func(p any) []byte
	// export request in the two HTTP encodings
	reqProto func(p any) []byte
	reqJSON  func(p any) []byte
	caseID   func(p any) string
	// real exporter of this signal from a factory; returns the component and its consume function
	newExporter func(ctx context.Context, f exporter.Factory, set exporter.Settings, cfg component.Config) (component.Component, func(context.Context, any) error, error)
	// real receiver of this signal
	newReceiver func(ctx context.Context, f receiver.Factory, set receiver.Settings, cfg component.Config, next *scriptedConsumer) (component.Component, error)
	// raw gRPC export through the generated client
	grpcExport func(ctx context.Context, cc *grpc.ClientConn, p any) error
}

// ---- attribute variety (seeded) ------------------------------------------------------------

func decorate(m pcommon.Map, r *rand.Rand) {
	m.PutStr("s.empty", "")
	m.PutStr("s.unicode", "héllo wörld ✓   \"quoted\" \\ / <tag>")
	m.PutInt("i.max", math.MaxInt64)
	m.PutInt("i.min", math.MinInt64)
	m.PutInt("i.rand", r.Int63()-r.Int63())
	m.PutDouble("d.small", 5e-324)
	m.PutDouble("d.big", math.MaxFloat64)
	m.PutDouble("d.rand", r.NormFloat64()*1e6)
	m.PutBool("b", r.Intn(2) == 0)
	b := m.PutEmptyBytes("bytes")
	// never zero-length: the proto encoding of an empty bytes value is not canonical (a nil slice is not
	// written at all, an empty one is), so a byte comparison could not tell it from a real difference
	raw := make([]byte, 1+r.Intn(40))
	_, _ = r.Read(raw)
	b.FromRaw(raw)
	sl := m.PutEmptySlice("slice")
	sl.AppendEmpty().SetStr("x")
	sl.AppendEmpty().SetInt(int64(r.Intn(1000)))
	sl.AppendEmpty() // empty value inside a slice
	km := m.PutEmptyMap("map")
	km.PutStr("k", "v")
	km.PutEmptyMap("nested").PutInt("n", int64(r.Intn(10)))
	m.PutEmpty("empty.value")
}

func firstCaseID(get func() (pcommon.Map, bool)) string {
	m, ok := get()
	if !ok {
		return ""
	}
	v, ok := m.Get(caseAttr)
	if !ok {
		return ""
	}
	return v.Str()
}

var signals map[string]*signalOps

func init() { signals = buildSignals() }

func buildSignals() map[string]*signalOps {
	return map[string]*signalOps{
		"traces": {
			name: "traces", httpPath: "/v1/traces", grpcMethod: "/opentelemetry.proto.collector.trace.v1.TraceService/Export",
			gen: func(id string, r *rand.Rand, zero bool) any {
				var td ptrace.Traces
				if zero {
					td = ptrace.NewTraces()
					td.ResourceSpans().AppendEmpty().ScopeSpans().AppendEmpty() // a resource and a scope, but no span
				} else {
					td = genTraces(r)
					decorate(td.ResourceSpans().At(0).ScopeSpans().At(0).Spans().At(0).Attributes(), r)
				}
				td.ResourceSpans().At(0).Resource().Attributes().PutStr(caseAttr, id)
				return td
			},
			marshal: func(p any) []byte {
				b, err := (&ptrace.ProtoMarshaler{}).MarshalTraces(p.(ptrace.Traces))
				must(err)
				return b
			},
			reqProto: func(p any) []byte {
				b, err := ptraceotlp.NewExportRequestFromTraces(p.(ptrace.Traces)).MarshalProto()
				must(err)
				return b
			},
			reqJSON: func(p any) []byte {
				b, err := ptraceotlp.NewExportRequestFromTraces(p.(ptrace.Traces)).MarshalJSON()
				must(err)
				return b
			},
			caseID: func(p any) string {
				td := p.(ptrace.Traces)
				return firstCaseID(func() (pcommon.Map, bool) {
					if td.ResourceSpans().Len() == 0 {
						return pcommon.Map{}, false
					}
					return td.ResourceSpans().At(0).Resource().Attributes(), true
				})
			},
			newExporter: func(ctx context.Context, f exporter.Factory, set exporter.Settings, cfg component.Config) (component.Component, func(context.Context, any) error, error) {
				e, err := f.CreateTraces(ctx, set, cfg)
				if err != nil {
					return nil, nil, err
				}
				return e, func(ctx context.Context, p any) error { return e.ConsumeTraces(ctx, p.(ptrace.Traces)) }, nil
			},
			newReceiver: func(ctx context.Context, f receiver.Factory, set receiver.Settings, cfg component.Config, next *scriptedConsumer) (component.Component, error) {
				c, err := consumer.NewTraces(func(ctx context.Context, td ptrace.Traces) error { return next.consume("traces", td) })
				must(err)
				return f.CreateTraces(ctx, set, cfg, c)
			},
			grpcExport: func(ctx context.Context, cc *grpc.ClientConn, p any) error {
				_, err := ptraceotlp.NewGRPCClient(cc).Export(ctx, ptraceotlp.NewExportRequestFromTraces(p.(ptrace.Traces)))
				return err
			},
		},
		"metrics": {
			name: "metrics", httpPath: "/v1/metrics", grpcMethod: "/opentelemetry.proto.collector.metrics.v1.MetricsService/Export",
			gen: func(id string, r *rand.Rand, zero bool) any {
				var md pmetric.Metrics
				if zero {
					md = pmetric.NewMetrics()
					md.ResourceMetrics().AppendEmpty().ScopeMetrics().AppendEmpty()
				} else {
					md = genMetrics(r)
				}
				if !zero {
					decorate(md.ResourceMetrics().At(0).ScopeMetrics().At(0).Scope().Attributes(), r)
				}
				md.ResourceMetrics().At(0).Resource().Attributes().PutStr(caseAttr, id)
				return md
			},
			marshal: func(p any) []byte {
				b, err := (&pmetric.ProtoMarshaler{}).MarshalMetrics(p.(pmetric.Metrics))
				must(err)
				return b
			},
			reqProto: func(p any) []byte {
				b, err := pmetricotlp.NewExportRequestFromMetrics(p.(pmetric.Metrics)).MarshalProto()
				must(err)
				return b
			},
			reqJSON: func(p any) []byte {
				b, err := pmetricotlp.NewExportRequestFromMetrics(p.(pmetric.Metrics)).MarshalJSON()
				must(err)
				return b
			},
			caseID: func(p any) string {
				md := p.(pmetric.Metrics)
				return firstCaseID(func() (pcommon.Map, bool) {
					if md.ResourceMetrics().Len() == 0 {
						return pcommon.Map{}, false
					}
					return md.ResourceMetrics().At(0).Resource().Attributes(), true
				})
			},
			newExporter: func(ctx context.Context, f exporter.Factory, set exporter.Settings, cfg component.Config) (component.Component, func(context.Context, any) error, error) {
				e, err := f.CreateMetrics(ctx, set, cfg)
				if err != nil {
					return nil, nil, err
				}
				return e, func(ctx context.Context, p any) error { return e.ConsumeMetrics(ctx, p.(pmetric.Metrics)) }, nil
			},
			newReceiver: func(ctx context.Context, f receiver.Factory, set receiver.Settings, cfg component.Config, next *scriptedConsumer) (component.Component, error) {
				c, err := consumer.NewMetrics(func(ctx context.Context, md pmetric.Metrics) error { return next.consume("metrics", md) })
				must(err)
				return f.CreateMetrics(ctx, set, cfg, c)
			},
			grpcExport: func(ctx context.Context, cc *grpc.ClientConn, p any) error {
				_, err := pmetricotlp.NewGRPCClient(cc).Export(ctx, pmetricotlp.NewExportRequestFromMetrics(p.(pmetric.Metrics)))
				return err
			},
		},
		"logs": {
			name: "logs", httpPath: "/v1/logs", grpcMethod: "/opentelemetry.proto.collector.logs.v1.LogsService/Export",
			gen: func(id string, r *rand.Rand, zero bool) any {
				var ld plog.Logs
				if zero {
					ld = plog.NewLogs()
					ld.ResourceLogs().AppendEmpty().ScopeLogs().AppendEmpty()
				} else {
					ld = genLogs(r)
					lr := ld.ResourceLogs().At(0).ScopeLogs().At(0).LogRecords().At(0)
					decorate(lr.Attributes(), r)
					decorate(lr.Body().SetEmptyMap(), r)
				}
				ld.ResourceLogs().At(0).Resource().Attributes().PutStr(caseAttr, id)
				return ld
			},
			marshal: func(p any) []byte {
				b, err := (&plog.ProtoMarshaler{}).MarshalLogs(p.(plog.Logs))
				must(err)
				return b
			},
			reqProto: func(p any) []byte {
				b, err := plogotlp.NewExportRequestFromLogs(p.(plog.Logs)).MarshalProto()
				must(err)
				return b
			},
			reqJSON: func(p any) []byte {
				b, err := plogotlp.NewExportRequestFromLogs(p.(plog.Logs)).MarshalJSON()
				must(err)
				return b
			},
			caseID: func(p any) string {
				ld := p.(plog.Logs)
				return firstCaseID(func() (pcommon.Map, bool) {
					if ld.ResourceLogs().Len() == 0 {
						return pcommon.Map{}, false
					}
					return ld.ResourceLogs().At(0).Resource().Attributes(), true
				})
			},
			newExporter: func(ctx context.Context, f exporter.Factory, set exporter.Settings, cfg component.Config) (component.Component, func(context.Context, any) error, error) {
				e, err := f.CreateLogs(ctx, set, cfg)
				if err != nil {
					return nil, nil, err
				}
				return e, func(ctx context.Context, p any) error { return e.ConsumeLogs(ctx, p.(plog.Logs)) }, nil
			},
			newReceiver: func(ctx context.Context, f receiver.Factory, set receiver.Settings, cfg component.Config, next *scriptedConsumer) (component.Component, error) {
				c, err := consumer.NewLogs(func(ctx context.Context, ld plog.Logs) error { return next.consume("logs", ld) })
				must(err)
				return f.CreateLogs(ctx, set, cfg, c)
			},
			grpcExport: func(ctx context.Context, cc *grpc.ClientConn, p any) error {
				_, err := plogotlp.NewGRPCClient(cc).Export(ctx, plogotlp.NewExportRequestFromLogs(p.(plog.Logs)))
				return err
			},
		},
		"profiles": {
			name: "profiles", httpPath: "/v1development/profiles", grpcMethod: "/opentelemetry.proto.collector.profiles.v1development.ProfilesService/Export",
			gen: func(id string, r *rand.Rand, zero bool) any {
				var pd pprofile.Profiles
				if zero {
					pd = pprofile.NewProfiles()
					pd.ResourceProfiles().AppendEmpty().ScopeProfiles().AppendEmpty()
				} else {
					pd = genProfiles(r)
					decorate(pd.ResourceProfiles().At(0).ScopeProfiles().At(0).Scope().Attributes(), r)
				}
				pd.ResourceProfiles().At(0).Resource().Attributes().PutStr(caseAttr, id)
				return pd
			},
			marshal: func(p any) []byte {
				b, err := (&pprofile.ProtoMarshaler{}).MarshalProfiles(p.(pprofile.Profiles))
				must(err)
				return b
			},
			reqProto: func(p any) []byte {
				b, err := pprofileotlp.NewExportRequestFromProfiles(p.(pprofile.Profiles)).MarshalProto()
				must(err)
				return b
			},
			reqJSON: func(p any) []byte {
				b, err := pprofileotlp.NewExportRequestFromProfiles(p.(pprofile.Profiles)).MarshalJSON()
				must(err)
				return b
			},
			caseID: func(p any) string {
				pd := p.(pprofile.Profiles)
				return firstCaseID(func() (pcommon.Map, bool) {
					if pd.ResourceProfiles().Len() == 0 {
						return pcommon.Map{}, false
					}
					return pd.ResourceProfiles().At(0).Resource().Attributes(), true
				})
			},
			newExporter: func(ctx context.Context, f exporter.Factory, set exporter.Settings, cfg component.Config) (component.Component, func(context.Context, any) error, error) {
				xf, ok := f.(xexporter.Factory)
				if !ok {
					return nil, nil, fmt.Errorf("factory %s has no profiles support", f.Type())
				}
				e, err := xf.CreateProfiles(ctx, set, cfg)
				if err != nil {
					return nil, nil, err
				}
				return e, func(ctx context.Context, p any) error { return e.ConsumeProfiles(ctx, p.(pprofile.Profiles)) }, nil
			},
			newReceiver: func(ctx context.Context, f receiver.Factory, set receiver.Settings, cfg component.Config, next *scriptedConsumer) (component.Component, error) {
				c, err := xconsumer.NewProfiles(func(ctx context.Context, pd pprofile.Profiles) error { return next.consume("profiles", pd) })
				must(err)
				return f.(xreceiver.Factory).CreateProfiles(ctx, set, cfg, c)
			},
			grpcExport: func(ctx context.Context, cc *grpc.ClientConn, p any) error {
				_, err := pprofileotlp.NewGRPCClient(cc).Export(ctx, pprofileotlp.NewExportRequestFromProfiles(p.(pprofile.Profiles)))
				return err
			},
		},
	}
}

func must(err error) {
	if err != nil {
		panic(err)
	}
}
