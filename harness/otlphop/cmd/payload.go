package main

import (
	"math/rand"
	"time"

	"go.opentelemetry.io/collector/pdata/pcommon"
	"go.opentelemetry.io/collector/pdata/plog"
	"go.opentelemetry.io/collector/pdata/pmetric"
	"go.opentelemetry.io/collector/pdata/pprofile"
	"go.opentelemetry.io/collector/pdata/ptrace"
)

// Seeded payload generators (pdata/testdata is not reachable from a harness module).

var t0 = time.Date(2020, 2, 11, 20, 26, 12, 321, time.UTC)

func ts(r *rand.Rand) pcommon.Timestamp {
	return pcommon.NewTimestampFromTime(t0.Add(time.Duration(r.Int63n(1e12))))
}

func initResource(res pcommon.Resource, r *rand.Rand) {
	res.Attributes().PutStr("service.name", "checkout")
	res.Attributes().PutInt("pid", int64(r.Intn(65536)))
	res.SetDroppedAttributesCount(uint32(r.Intn(3)))
}

func initScope(s pcommon.InstrumentationScope, r *rand.Rand) {
	s.SetName("scope-" + string(rune('a'+r.Intn(26))))
	s.SetVersion("1.2.3")
}

func genTraces(r *rand.Rand) ptrace.Traces {
	td := ptrace.NewTraces()
	for ri := 0; ri < 1+r.Intn(2); ri++ {
		rs := td.ResourceSpans().AppendEmpty()
		initResource(rs.Resource(), r)
		rs.SetSchemaUrl("https://opentelemetry.io/schemas/1.5.0")
		for si := 0; si < 1+r.Intn(2); si++ {
			ss := rs.ScopeSpans().AppendEmpty()
			initScope(ss.Scope(), r)
			for k := 0; k < 1+r.Intn(3); k++ {
				sp := ss.Spans().AppendEmpty()
				var tid [16]byte
				var sid [8]byte
				_, _ = r.Read(tid[:])
				_, _ = r.Read(sid[:])
				sp.SetTraceID(tid)
				sp.SetSpanID(sid)
				sp.SetName("operation")
				sp.SetKind(ptrace.SpanKind(r.Intn(6)))
				sp.SetStartTimestamp(ts(r))
				sp.SetEndTimestamp(ts(r))
				sp.TraceState().FromRaw("k=v")
				sp.Status().SetCode(ptrace.StatusCodeError)
				sp.Status().SetMessage("status-cancelled")
				ev := sp.Events().AppendEmpty()
				ev.SetName("event")
				ev.SetTimestamp(ts(r))
				ev.Attributes().PutStr("k", "v")
				ln := sp.Links().AppendEmpty()
				ln.SetTraceID(tid)
				ln.SetSpanID(sid)
				ln.SetFlags(uint32(r.Intn(256)))
				sp.SetDroppedEventsCount(1)
			}
		}
	}
	return td
}

func genMetrics(r *rand.Rand) pmetric.Metrics {
	md := pmetric.NewMetrics()
	rm := md.ResourceMetrics().AppendEmpty()
	initResource(rm.Resource(), r)
	sm := rm.ScopeMetrics().AppendEmpty()
	initScope(sm.Scope(), r)
	n := 1 + r.Intn(5)
	for k := 0; k < n; k++ {
		m := sm.Metrics().AppendEmpty()
		m.SetName("metric")
		m.SetDescription("desc")
		m.SetUnit("1")
		m.Metadata().PutStr("md", "x")
		switch (k + r.Intn(5)) % 5 {
		case 0:
			dp := m.SetEmptyGauge().DataPoints().AppendEmpty()
			dp.SetTimestamp(ts(r))
			dp.SetDoubleValue(r.NormFloat64())
			dp.Attributes().PutStr("l", "v")
			ex := dp.Exemplars().AppendEmpty()
			ex.SetIntValue(r.Int63())
			ex.SetTimestamp(ts(r))
		case 1:
			s := m.SetEmptySum()
			s.SetIsMonotonic(true)
			s.SetAggregationTemporality(pmetric.AggregationTemporalityCumulative)
			dp := s.DataPoints().AppendEmpty()
			dp.SetStartTimestamp(ts(r))
			dp.SetTimestamp(ts(r))
			dp.SetIntValue(r.Int63() - r.Int63())
		case 2:
			h := m.SetEmptyHistogram()
			h.SetAggregationTemporality(pmetric.AggregationTemporalityDelta)
			dp := h.DataPoints().AppendEmpty()
			dp.SetCount(uint64(r.Intn(100)))
			dp.SetSum(r.Float64() * 100)
			dp.SetMin(0.5)
			dp.SetMax(99.5)
			dp.BucketCounts().FromRaw([]uint64{1, uint64(r.Intn(50)), 3})
			dp.ExplicitBounds().FromRaw([]float64{1, 10})
			dp.SetTimestamp(ts(r))
		case 3:
			h := m.SetEmptyExponentialHistogram()
			h.SetAggregationTemporality(pmetric.AggregationTemporalityCumulative)
			dp := h.DataPoints().AppendEmpty()
			dp.SetCount(uint64(r.Intn(100)))
			dp.SetScale(int32(r.Intn(8) - 4))
			dp.SetZeroCount(2)
			dp.Positive().SetOffset(int32(r.Intn(5) - 2))
			dp.Positive().BucketCounts().FromRaw([]uint64{1, 2, 3})
			dp.Negative().BucketCounts().FromRaw([]uint64{4})
			dp.SetTimestamp(ts(r))
		case 4:
			dp := m.SetEmptySummary().DataPoints().AppendEmpty()
			dp.SetCount(uint64(r.Intn(100)))
			dp.SetSum(r.Float64())
			q := dp.QuantileValues().AppendEmpty()
			q.SetQuantile(0.99)
			q.SetValue(r.Float64())
			dp.SetTimestamp(ts(r))
		}
	}
	return md
}

func genLogs(r *rand.Rand) plog.Logs {
	ld := plog.NewLogs()
	for ri := 0; ri < 1+r.Intn(2); ri++ {
		rl := ld.ResourceLogs().AppendEmpty()
		initResource(rl.Resource(), r)
		sl := rl.ScopeLogs().AppendEmpty()
		initScope(sl.Scope(), r)
		sl.SetSchemaUrl("https://opentelemetry.io/schemas/1.5.0")
		for k := 0; k < 1+r.Intn(3); k++ {
			lr := sl.LogRecords().AppendEmpty()
			lr.SetTimestamp(ts(r))
			lr.SetObservedTimestamp(ts(r))
			lr.SetSeverityNumber(plog.SeverityNumber(r.Intn(25)))
			lr.SetSeverityText("Info")
			lr.SetEventName("event.name")
			lr.Body().SetStr("something happened")
			lr.SetFlags(plog.DefaultLogRecordFlags.WithIsSampled(r.Intn(2) == 0))
			var tid [16]byte
			_, _ = r.Read(tid[:])
			lr.SetTraceID(tid)
			lr.SetDroppedAttributesCount(uint32(r.Intn(4)))
		}
	}
	return ld
}

func genProfiles(r *rand.Rand) pprofile.Profiles {
	pd := pprofile.NewProfiles()
	rp := pd.ResourceProfiles().AppendEmpty()
	initResource(rp.Resource(), r)
	sp := rp.ScopeProfiles().AppendEmpty()
	initScope(sp.Scope(), r)
	for k := 0; k < 1+r.Intn(3); k++ {
		p := sp.Profiles().AppendEmpty()
		var id [16]byte
		_, _ = r.Read(id[:])
		p.SetProfileID(id)
		p.SetTime(ts(r))
		p.SetDuration(ts(r))
		p.SetDroppedAttributesCount(uint32(r.Intn(3)))
		at := p.AttributeTable().AppendEmpty()
		at.SetKey("key")
		at.Value().SetStr("value")
		s := p.Sample().AppendEmpty()
		s.SetLocationsStartIndex(int32(r.Intn(10)))
		s.SetLocationsLength(int32(r.Intn(20)))
		s.Value().Append(int64(r.Intn(100)))
		s.AttributeIndices().Append(0)
		p.StringTable().Append("", "cpu", "nanoseconds")
	}
	return pd
}
