package main

import (
	"context"
	"sync"

	"go.opentelemetry.io/collector/component"
	"go.opentelemetry.io/collector/extension/xextension/storage"
)

// memStorage is a minimal in-memory storage extension for the persistent queue (one client).
type memStorage struct {
	component.StartFunc
	component.ShutdownFunc
	mu   sync.Mutex
	data map[string][]byte
}

func newMemStorage() *memStorage { return &memStorage{data: map[string][]byte{}} }

func (m *memStorage) GetClient(context.Context, component.Kind, component.ID, string) (storage.Client, error) {
	return m, nil
}

func (m *memStorage) Get(_ context.Context, k string) ([]byte, error) {
	m.mu.Lock()
	defer m.mu.Unlock()
	return m.data[k], nil
}

func (m *memStorage) Set(_ context.Context, k string, v []byte) error {
	m.mu.Lock()
	defer m.mu.Unlock()
	m.data[k] = append([]byte(nil), v...)
	return nil
}

func (m *memStorage) Delete(_ context.Context, k string) error {
	m.mu.Lock()
	defer m.mu.Unlock()
	delete(m.data, k)
	return nil
}

func (m *memStorage) Batch(_ context.Context, ops ...*storage.Operation) error {
	m.mu.Lock()
	defer m.mu.Unlock()
	for _, op := range ops {
		switch op.Type {
		case storage.Get:
			op.Value = m.data[op.Key]
		case storage.Set:
			m.data[op.Key] = append([]byte(nil), op.Value...)
		case storage.Delete:
			delete(m.data, op.Key)
		}
	}
	return nil
}

func (m *memStorage) Close(context.Context) error { return nil }

type storageHost struct {
	id  component.ID
	ext component.Component
}

func (h *storageHost) GetExtensions() map[component.ID]component.Component {
	return map[component.ID]component.Component{h.id: h.ext}
}
