// Conformance driver for E03 (extra specification ExportContext): which CONTEXT the export function of an exporter
// built with exporterhelper sees.
//
//	exportctx run <scripts.ndjson> <traces.ndjson> [parallel]
//
// Every script builds a REAL exporter through the public API (exporterhelper.NewLogs + WithQueue / WithBatcher /
// WithTimeout / WithRetry), hands in requests, each with its own context (a remote span context with its own trace id
// -- sampled, unsampled or none --, an optional caller deadline, an optional cancellation before / after the call),
// and records, under one mutex and with times in microseconds since the script began:
//
//	send{r,t,D,a}   just BEFORE ConsumeLogs is called (t), D = the caller's absolute deadline (-1: none), a = attributes
//	sent{r,t,res}   ConsumeLogs returned
//	cancel{r,t}     just BEFORE the caller's cancel function is called
//	exp{call,c}     the export function was entered: c = [items found in the payload, parent = request whose trace the
//	                context's current span belongs to, links = requests named by queuebatch.LinksFromContext(ctx),
//	                sl = requests named by the links of the exporter span (SDK tracer; otherwise = links),
//	                hasdl/d = ctx.Deadline(), e = time read after all that, err = ctx.Err() != nil]
//	expend{call,x,out,err}   just BEFORE the export function returns outcome out (scripted per call: ok | transient | perm)
//	validate{t,ok}  (pseudo-script "validate") TimeoutConfig{Timeout: t}.Validate() == nil
//	wait            the script paused for 2.5 flush timeouts (lets the flush timer fire)
//	shutdown / stopped / hang    Shutdown called / returned / did not return within 20 s
//
// Nothing is judged here: specs/ExportContext/ExportContextTrace.tla does that.
package main

import (
	"bufio"
	"context"
	"encoding/json"
	"errors"
	"fmt"
	"os"
	"strconv"
	"strings"
	"sync"
	"time"

	sdktrace "go.opentelemetry.io/otel/sdk/trace"
	"go.opentelemetry.io/otel/trace"

	"go.opentelemetry.io/collector/component"
	"go.opentelemetry.io/collector/component/componenttest"
	"go.opentelemetry.io/collector/config/configretry"
	"go.opentelemetry.io/collector/consumer/consumererror"
	"go.opentelemetry.io/collector/exporter"
	"go.opentelemetry.io/collector/exporter/exporterhelper"
	"go.opentelemetry.io/collector/exporter/exporterhelper/internal/queuebatch"
	"go.opentelemetry.io/collector/pdata/plog"
)

type Cfg struct {
	Queue     string `json:"queue"` // none | memory | wfr | persistent
	Batch     bool   `json:"batch"`
	Min       int64  `json:"min"`
	Max       int64  `json:"max"`
	TimeoutMs int64  `json:"timeout_ms"`
	Retry     bool   `json:"retry"`
	Tracer    string `json:"tracer"` // noop | sdk
	Legacy    bool   `json:"legacy"` // batching through the deprecated WithBatcher option
	HoldUs    int64  `json:"hold_us"`
	FlushMs   int64  `json:"flush_ms"`
}

type Step struct {
	Op     string `json:"op"` // send | cancel | wait
	R      string `json:"r,omitempty"`
	N      int    `json:"n,omitempty"`
	Sc     string   `json:"sc,omitempty"` // span | unsampled | none | chain
	Up     []string `json:"up"`           // chain: the requests of the upstream batch whose context this request carries
	Dl     int    `json:"dl"`           // model value of the caller deadline class (0 = none)
	DlMs   int64  `json:"dl_ms"`
	Cancel string `json:"cancel,omitempty"` // no | pre | post
}

type Script struct {
	ID    string   `json:"id"`
	Cfg   Cfg      `json:"cfg"`
	Steps []Step   `json:"steps"`
	Outs  []string `json:"outs"`
}

type ev map[string]any

type runner struct {
	sc    Script
	t0    time.Time
	mu    sync.Mutex
	evs   []ev
	calls int
	byTr  map[trace.TraceID]string
}

func (r *runner) us(t time.Time) int64 { return t.Sub(r.t0).Microseconds() }

// log appends an event; the time field named tkey (if any) is read while the mutex is held, so the order of the
// lines is the order of their times
func (r *runner) log(e ev, tkey string) {
	r.mu.Lock()
	if tkey != "" {
		e[tkey] = r.us(time.Now())
	}
	r.evs = append(r.evs, e)
	r.mu.Unlock()
}

func (r *runner) name(sc trace.SpanContext, unknown string) string {
	if !sc.IsValid() {
		return "none"
	}
	r.mu.Lock()
	defer r.mu.Unlock()
	if n, ok := r.byTr[sc.TraceID()]; ok {
		return n
	}
	return unknown
}

// With a recording tracer the queue starts a span "exporter/enqueue" per request (obsQueue.Offer); for a request whose
// context has no span context that span is a new root with a trace id of its own.  enqProc attributes it to the request
// through a value the driver puts into the producer's context (nothing else reads that value).
type reqKeyT struct{}

type enqProc struct{ r *runner }

func (p enqProc) OnStart(parent context.Context, s sdktrace.ReadWriteSpan) {
	if s.Name() != "exporter/enqueue" {
		return
	}
	if n, ok := parent.Value(reqKeyT{}).(string); ok {
		p.r.mu.Lock()
		p.r.byTr[s.SpanContext().TraceID()] = n
		p.r.mu.Unlock()
	}
}
func (enqProc) OnEnd(sdktrace.ReadOnlySpan)      {}
func (enqProc) Shutdown(context.Context) error   { return nil }
func (enqProc) ForceFlush(context.Context) error { return nil }

func mkLogs(req string, n int) plog.Logs {
	ld := plog.NewLogs()
	sl := ld.ResourceLogs().AppendEmpty().ScopeLogs().AppendEmpty()
	for i := 1; i <= n; i++ {
		sl.LogRecords().AppendEmpty().Body().SetStr(req + "#" + strconv.Itoa(i))
	}
	return ld
}

func itemsOf(ld plog.Logs) [][]any {
	out := [][]any{}
	for i := 0; i < ld.ResourceLogs().Len(); i++ {
		rl := ld.ResourceLogs().At(i)
		for j := 0; j < rl.ScopeLogs().Len(); j++ {
			lrs := rl.ScopeLogs().At(j).LogRecords()
			for k := 0; k < lrs.Len(); k++ {
				p := strings.SplitN(lrs.At(k).Body().Str(), "#", 2)
				idx := 0
				if len(p) == 2 {
					idx, _ = strconv.Atoi(p[1])
				}
				out = append(out, []any{p[0], idx})
			}
		}
	}
	return out
}

var errT = errors.New("scripted transient failure")

func toErr(out string) error {
	switch out {
	case "ok":
		return nil
	case "perm":
		return consumererror.NewPermanent(errors.New("scripted permanent failure"))
	}
	return errT
}

func (r *runner) export(ctx context.Context, ld plog.Logs) error {
	items := itemsOf(ld)
	err0 := ctx.Err() != nil
	select {
	case <-ctx.Done():
		err0 = true
	default:
	}
	dl, has := ctx.Deadline()
	unknown := "?"
	if r.sc.Cfg.Tracer == "sdk" {
		unknown = "none" // the exporter span of a context without parent is a new root with a trace id of its own
	}
	parent := r.name(trace.SpanContextFromContext(ctx), unknown)
	links := []string{}
	for _, l := range queuebatch.LinksFromContext(ctx) {
		links = append(links, r.name(l.SpanContext, "?"))
	}
	sl := links
	if ro, ok := trace.SpanFromContext(ctx).(sdktrace.ReadOnlySpan); ok {
		sl = []string{}
		for _, l := range ro.Links() {
			sl = append(sl, r.name(l.SpanContext, "?"))
		}
	}
	d := int64(-1)
	if has {
		d = r.us(dl)
	}
	r.mu.Lock()
	r.calls++
	call := r.calls
	out := "ok"
	if call <= len(r.sc.Outs) {
		out = r.sc.Outs[call-1]
	}
	c := ev{"items": items, "parent": parent, "links": links, "sl": sl, "hasdl": has, "d": d,
		"e": r.us(time.Now()), "x": -1, "err": err0, "out": "open"}
	r.evs = append(r.evs, ev{"ev": "exp", "call": call, "c": c})
	r.mu.Unlock()
	if h := r.sc.Cfg.HoldUs; h > 0 {
		time.Sleep(time.Duration(h) * time.Microsecond)
	}
	err1 := ctx.Err() != nil
	select {
	case <-ctx.Done():
		err1 = true
	default:
	}
	r.log(ev{"ev": "expend", "call": call, "out": out, "err": err1}, "x")
	return toErr(out)
}

// upstreamContext returns the context a REAL upstream exporter helper (batching, no-op tracer as with
// service::telemetry::traces::level none) hands to its export function for a batch merged from the requests named in
// up, each sent with a span context of its own: no span context, the links to them registered in it.
func (r *runner) upstreamContext(up []string) (context.Context, func(), error) {
	got := make(chan context.Context, 1)
	set := exporter.Settings{ID: component.MustNewID("upstream"), TelemetrySettings: componenttest.NewNopTelemetrySettings(),
		BuildInfo: component.NewDefaultBuildInfo()}
	qc := exporterhelper.NewDefaultQueueConfig()
	qc.NumConsumers = 1
	qc.Sizer = exporterhelper.RequestSizerTypeItems
	qc.Batch = &exporterhelper.BatchConfig{FlushTimeout: time.Hour, MinSize: int64(len(up))}
	u, err := exporterhelper.NewLogs(context.Background(), set, struct{}{}, func(ctx context.Context, _ plog.Logs) error {
		select {
		case got <- ctx:
		default:
		}
		return nil
	}, exporterhelper.WithQueue(qc), exporterhelper.WithTimeout(exporterhelper.TimeoutConfig{Timeout: 0}))
	if err != nil {
		return nil, nil, err
	}
	if err := startC(func(sc context.Context) error { return u.Start(sc, componenttest.NewNopHost()) }); err != nil {
		return nil, nil, err
	}
	stop := func() { _ = u.Shutdown(context.Background()) }
	for i, name := range up {
		var tid trace.TraceID
		var sid trace.SpanID
		tid[0], tid[15] = 0xA7, byte(i+1)
		sid[0], sid[7] = 0xA7, byte(i+1)
		r.mu.Lock()
		r.byTr[tid] = name
		r.mu.Unlock()
		ctx := trace.ContextWithSpanContext(context.Background(), trace.NewSpanContext(trace.SpanContextConfig{
			TraceID: tid, SpanID: sid, TraceFlags: trace.FlagsSampled, Remote: true}))
		if err := u.ConsumeLogs(ctx, mkLogs(name, 1)); err != nil {
			stop()
			return nil, nil, err
		}
	}
	select {
	case x := <-got:
		return x, stop, nil
	case <-time.After(10 * time.Second):
		stop()
		return nil, nil, errors.New("the upstream exporter did not flush its batch")
	}
}

// validateScript records what TimeoutConfig.Validate says about a few timeouts (nanoseconds)
func validateScript(sc Script) []ev {
	evs := []ev{{"ev": "reset", "sid": sc.ID, "cfg": ev{"queue": "none", "batch": false, "min": 0, "max": 0, "timeout": 0, "retry": false, "enq": false}}}
	for _, ns := range []int64{-1000000000, -1, 0, 1, 1000000000} {
		tc := exporterhelper.TimeoutConfig{Timeout: time.Duration(ns)}
		evs = append(evs, ev{"ev": "validate", "t": ns, "ok": tc.Validate() == nil})
	}
	def := exporterhelper.NewDefaultTimeoutConfig()
	evs = append(evs, ev{"ev": "validate", "t": int64(def.Timeout / time.Millisecond), "ok": def.Validate() == nil})
	return append(evs, ev{"ev": "shutdown"}, ev{"ev": "stopped"})
}

func runScript(sc Script) []ev {
	if sc.Cfg.Queue == "validate" {
		return validateScript(sc)
	}
	r := &runner{sc: sc, t0: time.Now(), byTr: map[trace.TraceID]string{}}
	cfg := sc.Cfg
	if cfg.FlushMs <= 0 {
		cfg.FlushMs = 40
	}
	flush := time.Duration(cfg.FlushMs) * time.Millisecond
	r.log(ev{"ev": "reset", "sid": sc.ID, "drv": cfg,
		"cfg": ev{"queue": cfg.Queue, "batch": cfg.Batch, "min": cfg.Min, "max": cfg.Max,
			"timeout": cfg.TimeoutMs * 1000, "retry": cfg.Retry,
			"enq": cfg.Tracer == "sdk" && (cfg.Queue == "memory" || cfg.Queue == "wfr")}}, "")
	fail := func(what string) []ev {
		r.log(ev{"ev": "note", "text": what}, "")
		return r.evs
	}
	var ts component.TelemetrySettings
	var tel *componenttest.Telemetry
	if cfg.Tracer == "sdk" {
		tel = componenttest.NewTelemetry(componenttest.WithTraceOptions(sdktrace.WithSpanProcessor(enqProc{r})))
		ts = tel.NewTelemetrySettings()
		defer func() { _ = tel.Shutdown(context.Background()) }()
	} else {
		ts = componenttest.NewNopTelemetrySettings()
	}
	set := exporter.Settings{ID: component.MustNewID("verif"), TelemetrySettings: ts, BuildInfo: component.NewDefaultBuildInfo()}
	opts := []exporterhelper.Option{exporterhelper.WithTimeout(exporterhelper.TimeoutConfig{Timeout: time.Duration(cfg.TimeoutMs) * time.Millisecond})}
	var host component.Host = componenttest.NewNopHost()
	legacy := cfg.Legacy || (cfg.Queue == "persistent" && cfg.Batch)
	if cfg.Batch && legacy {
		bc := exporterhelper.NewDefaultBatcherConfig()
		bc.Enabled = true
		bc.FlushTimeout = flush
		bc.SizeConfig = exporterhelper.SizeConfig{Sizer: exporterhelper.RequestSizerTypeItems, MinSize: cfg.Min, MaxSize: cfg.Max}
		opts = append(opts, exporterhelper.WithBatcher(bc))
	}
	if cfg.Queue != "none" && !(cfg.Queue == "wfr" && cfg.Batch && legacy) {
		qc := exporterhelper.NewDefaultQueueConfig()
		qc.QueueSize = 1000
		qc.NumConsumers = 1
		qc.WaitForResult = cfg.Queue == "wfr"
		if cfg.Batch && !legacy {
			qc.Sizer = exporterhelper.RequestSizerTypeItems
			qc.Batch = &exporterhelper.BatchConfig{FlushTimeout: flush, MinSize: cfg.Min, MaxSize: cfg.Max}
		}
		if cfg.Queue == "persistent" {
			sid := component.MustNewID("vstore")
			qc.StorageID = &sid
			host = &storageHost{id: sid, ext: newMemStorage()}
		}
		opts = append(opts, exporterhelper.WithQueue(qc))
	}
	if cfg.Retry {
		rc := configretry.NewDefaultBackOffConfig()
		rc.RandomizationFactor = 0
		rc.Multiplier = 1
		rc.MaxElapsedTime = 0
		rc.InitialInterval, rc.MaxInterval = 2*time.Millisecond, 2*time.Millisecond
		opts = append(opts, exporterhelper.WithRetry(rc))
	}
	exp, err := exporterhelper.NewLogs(context.Background(), set, struct{}{}, r.export, opts...)
	if err != nil {
		return fail("setup: " + err.Error())
	}
	if err := startC(func(sc context.Context) error { return exp.Start(sc, host) }); err != nil {
		return fail("start: " + err.Error())
	}
	cancels := map[string]context.CancelFunc{}
	var cleanup []context.CancelFunc
	var upCtx context.Context // one upstream context per script, shared by all "chain" requests
	var sendWG sync.WaitGroup
	nreq := 0
	for _, st := range sc.Steps {
		switch st.Op {
		case "send":
			nreq++
			base := context.Background()
			if st.Sc == "chain" {
				if upCtx == nil {
					x, stop, err := r.upstreamContext(st.Up)
					if err != nil {
						return fail("upstream: " + err.Error())
					}
					upCtx = x
					defer stop()
				}
				base = upCtx
			}
			ctx := context.WithValue(base, reqKeyT{}, st.R)
			if st.Sc == "span" || st.Sc == "unsampled" {
				var tid trace.TraceID
				var sid trace.SpanID
				tid[0], tid[15] = 0xE3, byte(nreq)
				sid[0], sid[7] = 0xE3, byte(nreq)
				flags := trace.TraceFlags(0)
				if st.Sc == "span" {
					flags = trace.FlagsSampled
				}
				ctx = trace.ContextWithSpanContext(ctx, trace.NewSpanContext(trace.SpanContextConfig{
					TraceID: tid, SpanID: sid, TraceFlags: flags, Remote: true}))
				r.mu.Lock()
				r.byTr[tid] = st.R
				r.mu.Unlock()
			}
			D := int64(-1)
			if st.DlMs > 0 {
				var cf context.CancelFunc
				ctx, cf = context.WithDeadline(ctx, time.Now().Add(time.Duration(st.DlMs)*time.Millisecond))
				cleanup = append(cleanup, cf)
				dl, _ := ctx.Deadline()
				D = r.us(dl)
			}
			ctx, cancel := context.WithCancel(ctx)
			cancels[st.R] = cancel
			cleanup = append(cleanup, cancel)
			if st.Cancel == "pre" {
				cancel()
			}
			ld := mkLogs(st.R, st.N)
			up := st.Up
			if up == nil {
				up = []string{}
			}
			a := ev{"n": st.N, "sc": st.Sc, "dl": st.Dl, "cancel": st.Cancel, "up": up}
			do := func() {
				r.log(ev{"ev": "send", "r": st.R, "D": D, "a": a}, "t")
				res := "ok"
				if err := exp.ConsumeLogs(ctx, ld); err != nil {
					res = "err"
				}
				r.log(ev{"ev": "sent", "r": st.R, "res": res}, "t")
			}
			if cfg.Queue == "wfr" {
				// the producer is blocked until its data was exported: producers run concurrently, started 3 ms apart
				started := make(chan struct{})
				sendWG.Add(1)
				go func() {
					defer sendWG.Done()
					close(started)
					do()
				}()
				<-started
				time.Sleep(3 * time.Millisecond)
			} else {
				do()
			}
		case "cancel":
			if cf := cancels[st.R]; cf != nil {
				r.log(ev{"ev": "cancel", "r": st.R}, "t")
				cf()
			}
		case "wait":
			time.Sleep(flush*5/2 + 10*time.Millisecond)
			r.log(ev{"ev": "wait"}, "")
		}
	}
	if cfg.Queue == "persistent" {
		// a persistent queue keeps what has not been read for the next start: give the consumer a moment
		time.Sleep(30 * time.Millisecond)
	}
	if cfg.Queue == "wfr" {
		// every producer is released by the flush timer at the latest; a send that reaches the queue only after
		// Shutdown was requested is outside every statement, so let them all return first
		ret := make(chan struct{})
		go func() { sendWG.Wait(); close(ret) }()
		select {
		case <-ret:
		case <-time.After(3 * time.Second):
		}
	}
	r.log(ev{"ev": "shutdown"}, "")
	done := make(chan struct{})
	go func() {
		_ = exp.Shutdown(context.Background())
		sendWG.Wait()
		close(done)
	}()
	select {
	case <-done:
		r.log(ev{"ev": "stopped"}, "")
	case <-time.After(20 * time.Second):
		r.log(ev{"ev": "hang"}, "")
	}
	for _, cf := range cleanup {
		cf()
	}
	r.mu.Lock()
	defer r.mu.Unlock()
	return r.evs
}

func main() {
	if len(os.Args) < 4 || os.Args[1] != "run" {
		fmt.Fprintln(os.Stderr, "usage: exportctx run <scripts.ndjson> <traces.ndjson> [parallel]")
		os.Exit(3)
	}
	par := 8
	if len(os.Args) > 4 {
		par, _ = strconv.Atoi(os.Args[4])
		if par < 1 {
			par = 1
		}
	}
	in, err := os.Open(os.Args[2])
	if err != nil {
		fmt.Fprintln(os.Stderr, err)
		os.Exit(3)
	}
	var scripts []Script
	sc := bufio.NewScanner(in)
	sc.Buffer(make([]byte, 1<<20), 1<<26)
	for sc.Scan() {
		var s Script
		if err := json.Unmarshal(sc.Bytes(), &s); err != nil {
			fmt.Fprintln(os.Stderr, "bad script:", err)
			os.Exit(3)
		}
		scripts = append(scripts, s)
	}
	res := make([][]ev, len(scripts))
	sem := make(chan struct{}, par)
	var wg sync.WaitGroup
	for i := range scripts {
		wg.Add(1)
		sem <- struct{}{}
		go func(i int) {
			defer wg.Done()
			res[i] = runScript(scripts[i])
			<-sem
		}(i)
	}
	wg.Wait()
	out, err := os.Create(os.Args[3])
	if err != nil {
		fmt.Fprintln(os.Stderr, err)
		os.Exit(3)
	}
	w := bufio.NewWriter(out)
	enc := json.NewEncoder(w)
	for _, evs := range res {
		for _, e := range evs {
			_ = enc.Encode(e)
		}
	}
	w.Flush()
	out.Close()
}

// startC calls a component's Start with a context that is cancelled as soon as Start has returned: component.Component
// says that context "will be cancelled soon", so nothing that has to outlive Start may depend on it.
func startC(start func(context.Context) error) error {
	ctx, cancel := context.WithCancel(context.Background())
	defer cancel()
	return start(ctx)
}
