package main

// Service-level part of C11: a REAL service (service.New / Start / Shutdown: graph.go, host.go, extensions.go, the status
// reporter) with scripted components that report statuses from their own goroutines while the service reports the
// lifecycle statuses on their behalf.  Every event delivered to a StatusWatcher extension is recorded inside the
// callback (it runs under the reporter's mutex).  TLC checks that each instance's delivered sequence is a path of the
// state machine (StatusSvcTrace.tla): the automatic and the component's own reports interleave arbitrarily, so any
// path is accepted and any illegal step is rejected.

import (
	"bufio"
	"context"
	"encoding/json"
	"errors"
	"math/rand"
	"os"
	"runtime"
	"sync"
	"time"

	"go.uber.org/zap/zapcore"

	"go.opentelemetry.io/collector/component"
	"go.opentelemetry.io/collector/component/componentstatus"
	"go.opentelemetry.io/collector/config/configtelemetry"
	"go.opentelemetry.io/collector/consumer"
	"go.opentelemetry.io/collector/exporter"
	"go.opentelemetry.io/collector/extension"
	"go.opentelemetry.io/collector/pdata/plog"
	"go.opentelemetry.io/collector/pipeline"
	"go.opentelemetry.io/collector/processor"
	"go.opentelemetry.io/collector/receiver"
	"go.opentelemetry.io/collector/service"
	"go.opentelemetry.io/collector/service/extensions"
	"go.opentelemetry.io/collector/service/pipelines"
	"go.opentelemetry.io/collector/service/telemetry"
)

type svcScript struct {
	startFail string              // component kind whose Start fails ("" = none)
	stopFail  string              // component kind whose Shutdown fails
	reports   map[string][]string // kind -> statuses its goroutine reports
	late      map[string]bool     // kind -> the goroutine keeps reporting after Start returned (until Shutdown)
}

type svcComp struct {
	kind string
	sc   *svcScript
	wg   sync.WaitGroup
	stop chan struct{}
}

func (c *svcComp) Start(_ context.Context, host component.Host) error {
	c.stop = make(chan struct{})
	reps := c.sc.reports[c.kind]
	c.wg.Add(1)
	go func() {
		defer c.wg.Done()
		for _, s := range reps {
			if c.sc.late[c.kind] {
				select {
				case <-c.stop:
				case <-time.After(time.Duration(50+rand.Intn(300)) * time.Microsecond):
				}
			} else {
				runtime.Gosched()
			}
			var ev *componentstatus.Event
			switch s {
			case "RecoverableError":
				ev = componentstatus.NewRecoverableErrorEvent(errors.New("scripted"))
			case "PermanentError":
				ev = componentstatus.NewPermanentErrorEvent(errors.New("scripted"))
			case "FatalError":
				ev = componentstatus.NewFatalErrorEvent(errors.New("scripted"))
			default:
				ev = componentstatus.NewEvent(byName[s])
			}
			componentstatus.ReportStatus(host, ev)
		}
	}()
	if c.sc.startFail == c.kind {
		return errors.New("scripted start failure")
	}
	return nil
}

func (c *svcComp) Shutdown(context.Context) error {
	if c.stop != nil {
		close(c.stop)
		c.wg.Wait()
	}
	if c.sc.stopFail == c.kind {
		return errors.New("scripted shutdown failure")
	}
	return nil
}

func (c *svcComp) Capabilities() consumer.Capabilities             { return consumer.Capabilities{} }
func (c *svcComp) ConsumeLogs(context.Context, plog.Logs) error { return nil }

type watcher struct {
	svcComp
	mu  *sync.Mutex
	log *[]rec
}

func (w *watcher) ComponentStatusChanged(source *componentstatus.InstanceID, event *componentstatus.Event) {
	name := map[component.Kind]string{component.KindReceiver: "receiver", component.KindProcessor: "processor",
		component.KindExporter: "exporter", component.KindExtension: "extension"}[source.Kind()]
	w.mu.Lock()
	*w.log = append(*w.log, rec{Ev: "event", Inst: name, St: nameOf(event.Status())})
	w.mu.Unlock()
}

func svcRound(rng *rand.Rand) []rec {
	kindsOfComp := []string{"receiver", "processor", "exporter", "extension"}
	sc := &svcScript{reports: map[string][]string{}, late: map[string]bool{}}
	if rng.Intn(4) == 0 {
		sc.startFail = kindsOfComp[rng.Intn(3)]
	}
	if rng.Intn(4) == 0 {
		sc.stopFail = kindsOfComp[rng.Intn(3)]
	}
	own := []string{"OK", "RecoverableError", "PermanentError", "FatalError", "Stopping", "Stopped", "Starting", "None"}
	for _, k := range kindsOfComp[:3] {
		n := rng.Intn(4)
		for i := 0; i < n; i++ {
			s := own[rng.Intn(len(own))]
			if rng.Intn(2) == 0 {
				s = own[rng.Intn(3)] // mostly runtime statuses
			}
			sc.reports[k] = append(sc.reports[k], s)
		}
		sc.late[k] = rng.Intn(2) == 0
	}
	var mu sync.Mutex
	var log []rec
	typ := component.MustNewType("v")
	id := component.NewID(typ)
	cfgf := func() component.Config { return &struct{}{} }
	rf := receiver.NewFactory(typ, cfgf, receiver.WithLogs(func(context.Context, receiver.Settings, component.Config, consumer.Logs) (receiver.Logs, error) {
		return &svcComp{kind: "receiver", sc: sc}, nil
	}, component.StabilityLevelStable))
	pf := processor.NewFactory(typ, cfgf, processor.WithLogs(func(context.Context, processor.Settings, component.Config, consumer.Logs) (processor.Logs, error) {
		return &svcComp{kind: "processor", sc: sc}, nil
	}, component.StabilityLevelStable))
	ef := exporter.NewFactory(typ, cfgf, exporter.WithLogs(func(context.Context, exporter.Settings, component.Config) (exporter.Logs, error) {
		return &svcComp{kind: "exporter", sc: sc}, nil
	}, component.StabilityLevelStable))
	xf := extension.NewFactory(typ, cfgf, func(context.Context, extension.Settings, component.Config) (extension.Extension, error) {
		return &watcher{svcComp: svcComp{kind: "extension", sc: sc}, mu: &mu, log: &log}, nil
	}, component.StabilityLevelStable)
	set := service.Settings{
		BuildInfo:           component.NewDefaultBuildInfo(),
		ReceiversConfigs:    map[component.ID]component.Config{id: cfgf()},
		ReceiversFactories:  map[component.Type]receiver.Factory{typ: rf},
		ProcessorsConfigs:   map[component.ID]component.Config{id: cfgf()},
		ProcessorsFactories: map[component.Type]processor.Factory{typ: pf},
		ExportersConfigs:    map[component.ID]component.Config{id: cfgf()},
		ExportersFactories:  map[component.Type]exporter.Factory{typ: ef},
		ExtensionsConfigs:   map[component.ID]component.Config{id: cfgf()},
		ExtensionsFactories: map[component.Type]extension.Factory{typ: xf},
		AsyncErrorChannel:   make(chan error, 64),
	}
	scfg := service.Config{
		Telemetry: telemetry.Config{
			Logs:    telemetry.LogsConfig{Level: zapcore.FatalLevel, Encoding: "console", OutputPaths: []string{"stderr"}, ErrorOutputPaths: []string{"stderr"}},
			Metrics: telemetry.MetricsConfig{Level: configtelemetry.LevelNone},
		},
		Extensions: extensions.Config{id},
		Pipelines: pipelines.Config{pipeline.NewID(pipeline.SignalLogs): {
			Receivers: []component.ID{id}, Processors: []component.ID{id}, Exporters: []component.ID{id}}},
	}
	out := []rec{{Ev: "reset"}}
	srv, err := service.New(context.Background(), set, scfg)
	if err != nil {
		return append(out, rec{Ev: "note", St: err.Error()})
	}
	done := make(chan struct{})
	go func() {
		defer close(done)
		if err := srv.Start(context.Background()); err == nil {
			time.Sleep(time.Duration(rng.Intn(600)) * time.Microsecond)
		}
		_ = srv.Shutdown(context.Background())
	}()
	select {
	case <-done:
	case <-time.After(30 * time.Second):
		return append(out, rec{Ev: "note", St: "service lifetime did not end"})
	}
	mu.Lock()
	out = append(out, log...)
	mu.Unlock()
	return out
}

func svcMain(seed int64, rounds int, outPath string) error {
	f, err := os.Create(outPath)
	if err != nil {
		return err
	}
	defer f.Close()
	w := bufio.NewWriter(f)
	defer w.Flush()
	enc := json.NewEncoder(w)
	results := make([][]rec, rounds)
	sem := make(chan struct{}, 8)
	var wg sync.WaitGroup
	for r := 0; r < rounds; r++ {
		wg.Add(1)
		sem <- struct{}{}
		go func(r int) {
			defer wg.Done()
			defer func() { <-sem }()
			results[r] = svcRound(rand.New(rand.NewSource(seed*7919 + int64(r))))
		}(r)
	}
	wg.Wait()
	for _, rs := range results {
		for _, e := range rs {
			if err := enc.Encode(e); err != nil {
				return err
			}
		}
	}
	return enc.Encode(rec{Ev: "end"})
}
