// Conformance driver for C11 (component status state machine).
//
//	c11 replay <behaviours.ndjson> <result.json>
//	    every line is a TLC-generated behaviour [{i,w,ev},...]; it is replayed through the real
//	    status.NewReporter and the delivered event of every step is compared with the specified one.
//	c11 conc <seed> <rounds> <goroutines> <reports> <instances> <trace.ndjson>
//	    concurrent reporters under the Go scheduler; events are recorded inside the callback
//	    (it runs under the reporter's mutex, so the recorded order is the linearisation order).
package main

import (
	"bufio"
	"context"
	"encoding/json"
	"errors"
	"fmt"
	"math/rand"
	"os"
	"runtime"
	"strconv"
	"sync"
	"sync/atomic"

	"go.opentelemetry.io/collector/component"
	"go.opentelemetry.io/collector/component/componentstatus"
	"go.opentelemetry.io/collector/internal/sharedcomponent"
	"go.opentelemetry.io/collector/service/internal/status"
)

type step struct {
	I  string `json:"i"`
	W  string `json:"w"`
	Ev string `json:"ev"`
}

var byName = map[string]componentstatus.Status{
	"None": componentstatus.StatusNone, "Starting": componentstatus.StatusStarting, "OK": componentstatus.StatusOK,
	"RecoverableError": componentstatus.StatusRecoverableError, "PermanentError": componentstatus.StatusPermanentError,
	"FatalError": componentstatus.StatusFatalError, "Stopping": componentstatus.StatusStopping, "Stopped": componentstatus.StatusStopped,
}

func nameOf(s componentstatus.Status) string {
	for n, v := range byName {
		if v == s {
			return n
		}
	}
	return "?" + s.String()
}

var kinds = []string{"None", "Starting", "OK", "RecoverableError", "PermanentError", "FatalError", "Stopping", "Stopped", "okIfStarting"}

type mismatch struct {
	Beh  int    `json:"beh"`
	Step int    `json:"step"`
	Want string `json:"want"`
	Got  string `json:"got"`
	Ops  []step `json:"ops"`
}

func newID(name string) *componentstatus.InstanceID {
	return componentstatus.NewInstanceID(component.MustNewID(name), component.KindReceiver)
}

func replay(in, out string) error {
	f, err := os.Open(in)
	if err != nil {
		return err
	}
	defer f.Close()
	sc := bufio.NewScanner(f)
	sc.Buffer(make([]byte, 1<<20), 1<<26)
	var mism []mismatch
	n, steps, delivered, invalid := 0, 0, 0, 0
	for sc.Scan() {
		var beh []step
		if err := json.Unmarshal(sc.Bytes(), &beh); err != nil {
			return fmt.Errorf("line %d: %w", n+1, err)
		}
		ids := map[string]*componentstatus.InstanceID{}
		rev := map[*componentstatus.InstanceID]string{}
		var got []string // events delivered during the current step, as inst:status
		rep := status.NewReporter(func(id *componentstatus.InstanceID, ev *componentstatus.Event) {
			got = append(got, rev[id]+":"+nameOf(ev.Status()))
		}, func(error) { invalid++ })
		for k, st := range beh {
			id, ok := ids[st.I]
			if !ok {
				id = newID(st.I)
				ids[st.I] = id
				rev[id] = st.I
			}
			got = got[:0]
			if st.W == "okIfStarting" {
				rep.ReportOKIfStarting(id)
			} else {
				rep.ReportStatus(id, componentstatus.NewEvent(byName[st.W]))
			}
			steps++
			g := "none"
			if len(got) == 1 {
				g = got[0]
				delivered++
			} else if len(got) > 1 {
				g = fmt.Sprint(got)
			}
			want := "none"
			if st.Ev != "none" {
				want = st.I + ":" + st.Ev
			}
			if g != want {
				if len(mism) < 50 {
					mism = append(mism, mismatch{Beh: n, Step: k, Want: want, Got: g, Ops: beh})
				}
				break
			}
		}
		n++
	}
	res := map[string]any{"behaviours": n, "steps": steps, "delivered": delivered, "invalid_callbacks": invalid, "mismatches": mism}
	b, _ := json.Marshal(res)
	return os.WriteFile(out, b, 0o644)
}

type rec struct {
	Ev   string     `json:"ev"`
	Inst string     `json:"inst,omitempty"`
	St   string     `json:"st,omitempty"`
	Prog [][]string `json:"progs,omitempty"` // reset line: per goroutine, flattened [inst, what, inst, what, ...]
}

func conc(seed int64, rounds, G, P, M int, out string) error {
	rng := rand.New(rand.NewSource(seed))
	f, err := os.Create(out)
	if err != nil {
		return err
	}
	defer f.Close()
	w := bufio.NewWriter(f)
	defer w.Flush()
	enc := json.NewEncoder(w)
	for r := 0; r < rounds; r++ {
		ids := make([]*componentstatus.InstanceID, M)
		rev := map[*componentstatus.InstanceID]string{}
		for i := range ids {
			ids[i] = newID("i" + strconv.Itoa(i+1))
			rev[ids[i]] = "i" + strconv.Itoa(i+1)
		}
		var log []rec // appended only inside the callback, i.e. under the reporter mutex
		rep := status.NewReporter(func(id *componentstatus.InstanceID, ev *componentstatus.Event) {
			log = append(log, rec{Ev: "event", Inst: rev[id], St: nameOf(ev.Status())})
		}, func(error) {})
		progs := make([][]string, G)
		for g := range progs {
			progs[g] = []string{}
		}
		type op struct {
			inst int
			what string
		}
		ops := make([][]op, G)
		// every second round is FOCUSED: one instance is brought to a chosen state sequentially, then every goroutine
		// fires one or two reports at it at the same moment (check-then-act windows need exactly this contention)
		focused := r%4 != 0
		if focused {
			// systematic: every (state-reaching prefix, report A, report B) combination, two goroutines, one report each
			prefixes := [][]string{{}, {"Starting"}, {"Starting", "OK"}, {"Starting", "RecoverableError"}, {"Starting", "PermanentError"},
				{"Starting", "OK", "Stopping"}, {"Starting", "Stopping"}, {"Starting", "OK", "RecoverableError"}}
			combo := r - r/4 - 1
			pre := prefixes[combo%len(prefixes)]
			a := kinds[(combo/len(prefixes))%len(kinds)]
			b := kinds[(combo/len(prefixes)/len(kinds))%len(kinds)]
			for _, w := range pre {
				rep.ReportStatus(ids[0], componentstatus.NewEvent(byName[w]))
				progs[0] = append(progs[0], "i1", w)
			}
			ops[0] = append(ops[0], op{0, a})
			progs[0] = append(progs[0], "i1", a)
			ops[1] = append(ops[1], op{0, b})
			progs[1] = append(progs[1], "i1", b)
		}
		for g := 0; g < G && !focused; g++ {
			for p := 0; p < P; p++ {
				i := rng.Intn(M)
				// bias towards sequences that get somewhere: Starting early, lifecycle-ish afterwards
				var what string
				switch x := rng.Intn(10); {
				case p == 0 && x < 7:
					what = "Starting"
				case x < 2:
					what = "okIfStarting"
				default:
					what = kinds[rng.Intn(len(kinds))]
				}
				ops[g] = append(ops[g], op{i, what})
				progs[g] = append(progs[g], "i"+strconv.Itoa(i+1), what)
			}
		}
		var wg sync.WaitGroup
		var start atomic.Bool
		var ready atomic.Int32
		for g := 0; g < G; g++ {
			wg.Add(1)
			go func(g int) {
				defer wg.Done()
				ready.Add(1)
				for !start.Load() { // spin: all goroutines leave the barrier within nanoseconds of each other
				}
				for _, o := range ops[g] {
					if o.what == "okIfStarting" {
						rep.ReportOKIfStarting(ids[o.inst])
					} else {
						rep.ReportStatus(ids[o.inst], componentstatus.NewEvent(byName[o.what]))
					}
					if g%2 == 0 {
						runtime.Gosched()
					}
				}
			}(g)
		}
		for int(ready.Load()) < G {
			runtime.Gosched()
		}
		start.Store(true)
		wg.Wait()
		if err := enc.Encode(rec{Ev: "reset", Prog: progs}); err != nil {
			return err
		}
		for _, e := range log {
			if err := enc.Encode(e); err != nil {
				return err
			}
		}
	}
	return enc.Encode(rec{Ev: "end"})
}

// ------------------------------------------------------------------------------------------- shared component

type sstep struct {
	Op    string              `json:"op"`
	Inst  string              `json:"inst"`
	Fails bool                `json:"fails"`
	St    string              `json:"st"`
	After map[string][]string `json:"after"`
}

// instHost is the host the graph hands to a component instance: Report goes to the service reporter under the
// instance's id (service/internal/graph/host.go does the same through componentstatus.ReportStatus).
type instHost struct {
	id  *componentstatus.InstanceID
	rep status.Reporter
}

func (h *instHost) GetExtensions() map[component.ID]component.Component { return nil }
func (h *instHost) Report(ev *componentstatus.Event)                       { h.rep.ReportStatus(h.id, ev) }

type scomp struct {
	startErr, stopErr error
	host              component.Host
}

func (c *scomp) Start(_ context.Context, h component.Host) error { c.host = h; return c.startErr }
func (c *scomp) Shutdown(context.Context) error                  { return c.stopErr }

func sharedReplay(in, out string) error {
	f, err := os.Open(in)
	if err != nil {
		return err
	}
	defer f.Close()
	sc := bufio.NewScanner(f)
	sc.Buffer(make([]byte, 1<<20), 1<<26)
	type smis struct {
		Beh   int                 `json:"beh"`
		Step  int                 `json:"step"`
		Want  map[string][]string `json:"want"`
		Got   map[string][]string `json:"got"`
		Steps []sstep             `json:"steps"`
	}
	var mism []smis
	n := 0
	for sc.Scan() {
		var beh []sstep
		if err := json.Unmarshal(sc.Bytes(), &beh); err != nil {
			return err
		}
		got := map[string][]string{}
		ids := map[string]*componentstatus.InstanceID{}
		rev := map[*componentstatus.InstanceID]string{}
		rep := status.NewReporter(func(id *componentstatus.InstanceID, ev *componentstatus.Event) {
			got[rev[id]] = append(got[rev[id]], nameOf(ev.Status()))
		}, func(error) {})
		for _, st := range beh {
			for name := range st.After {
				if _, ok := ids[name]; !ok {
					ids[name] = newID(name)
					rev[ids[name]] = name
					got[name] = []string{}
				}
			}
		}
		comp := &scomp{}
		m := sharedcomponent.NewMap[string, *scomp]()
		load := func() *sharedcomponent.Component[*scomp] {
			c, _ := m.LoadOrStore("key", func() (*scomp, error) { return comp, nil })
			return c
		}
		shared := load()
		ctx := context.Background()
		for k, st := range beh {
			switch st.Op {
			case "gstart":
				id := ids[st.Inst]
				if st.Fails {
					comp.startErr = errors.New("scripted start failure")
				}
				rep.ReportStatus(id, componentstatus.NewEvent(componentstatus.StatusStarting))
				if err := shared.Start(ctx, &instHost{id: id, rep: rep}); err != nil {
					rep.ReportStatus(id, componentstatus.NewPermanentErrorEvent(err))
				} else {
					rep.ReportOKIfStarting(id)
				}
			case "report":
				if comp.host != nil {
					componentstatus.ReportStatus(comp.host, componentstatus.NewEvent(byName[st.St]))
				}
			case "gstop":
				id := ids[st.Inst]
				if st.Fails {
					comp.stopErr = errors.New("scripted shutdown failure")
				}
				rep.ReportStatus(id, componentstatus.NewEvent(componentstatus.StatusStopping))
				if err := shared.Shutdown(ctx); err != nil {
					rep.ReportStatus(id, componentstatus.NewPermanentErrorEvent(err))
				} else {
					rep.ReportStatus(id, componentstatus.NewEvent(componentstatus.StatusStopped))
				}
			}
			same := true
			for name, want := range st.After {
				if fmt.Sprint(want) != fmt.Sprint(got[name]) {
					same = false
				}
			}
			if !same {
				if len(mism) < 40 {
					cp := map[string][]string{}
					for a, b := range got {
						cp[a] = append([]string{}, b...)
					}
					mism = append(mism, smis{Beh: n, Step: k, Want: st.After, Got: cp, Steps: beh})
				}
				break
			}
		}
		n++
	}
	b, _ := json.Marshal(map[string]any{"behaviours": n, "mismatches": mism})
	return os.WriteFile(out, b, 0o644)
}

func main() {
	var err error
	switch {
	case len(os.Args) == 5 && os.Args[1] == "sharedconc":
		seed, _ := strconv.ParseInt(os.Args[2], 10, 64)
		rounds, _ := strconv.Atoi(os.Args[3])
		err = sharedConc(seed, rounds, os.Args[4])
	case len(os.Args) == 5 && os.Args[1] == "svc":
		seed, _ := strconv.ParseInt(os.Args[2], 10, 64)
		rounds, _ := strconv.Atoi(os.Args[3])
		err = svcMain(seed, rounds, os.Args[4])
	case len(os.Args) == 4 && os.Args[1] == "shared":
		err = sharedReplay(os.Args[2], os.Args[3])
	case len(os.Args) == 4 && os.Args[1] == "replay":
		err = replay(os.Args[2], os.Args[3])
	case len(os.Args) == 8 && os.Args[1] == "conc":
		a := make([]int, 5)
		for i := range a {
			a[i], _ = strconv.Atoi(os.Args[2+i])
		}
		err = conc(int64(a[0]), a[1], a[2], a[3], a[4], os.Args[7])
	default:
		err = fmt.Errorf("usage: c11 replay <in> <out> | c11 conc <seed> <rounds> <G> <P> <M> <out>")
	}
	if err != nil {
		fmt.Fprintln(os.Stderr, err)
		os.Exit(3)
	}
}

// ------------------------------------------------------------------------------------- shared component, concurrent

// rawHost records what the shared component's wrapper hands to one instance (before that instance's state machine).
type rawHost struct {
	mu  sync.Mutex
	got []string
}

func (h *rawHost) GetExtensions() map[component.ID]component.Component { return nil }
func (h *rawHost) Report(ev *componentstatus.Event) {
	h.mu.Lock()
	h.got = append(h.got, nameOf(ev.Status()))
	h.mu.Unlock()
}

type sconcRec struct {
	Ev string   `json:"ev"`
	R  []string `json:"r"`  // statuses the component reported, in order (one reporter goroutine)
	Q1 []string `json:"q1"` // what instance 1 (attached from the start) was handed
	Q2 []string `json:"q2"` // what instance 2 (attached concurrently) was handed
}

// sharedConc: the component reports from its own goroutine while a second instance attaches.  Whatever the schedule, the
// late instance must be handed the remembered history (last 5) up to SOME point of the report sequence and every later
// report after it, in order (SharedConcTrace.tla).
func sharedConc(seed int64, rounds int, out string) error {
	rng := rand.New(rand.NewSource(seed))
	f, err := os.Create(out)
	if err != nil {
		return err
	}
	defer f.Close()
	w := bufio.NewWriter(f)
	defer w.Flush()
	enc := json.NewEncoder(w)
	cycle := []string{"RecoverableError", "OK", "RecoverableError", "OK", "PermanentError", "OK", "FatalError", "RecoverableError"}
	for r := 0; r < rounds; r++ {
		comp := &scomp{}
		m := sharedcomponent.NewMap[string, *scomp]()
		shared, _ := m.LoadOrStore("key", func() (*scomp, error) { return comp, nil })
		h1, h2 := &rawHost{}, &rawHost{}
		ctx := context.Background()
		_ = shared.Start(ctx, h1)
		n := 1 + rng.Intn(4)
		off := rng.Intn(len(cycle))
		pre := rng.Intn(3) // reports made before the race starts
		var reps []string
		for i := 0; i < pre; i++ {
			s := cycle[(off+i)%len(cycle)]
			componentstatus.ReportStatus(comp.host, componentstatus.NewEvent(byName[s]))
			reps = append(reps, s)
		}
		var start atomic.Bool
		var ready atomic.Int32
		var wg sync.WaitGroup
		wg.Add(2)
		go func() {
			defer wg.Done()
			ready.Add(1)
			for !start.Load() {
			}
			for i := 0; i < n; i++ {
				s := cycle[(off+pre+i)%len(cycle)]
				componentstatus.ReportStatus(comp.host, componentstatus.NewEvent(byName[s]))
				reps = append(reps, s)
			}
		}()
		go func() {
			defer wg.Done()
			ready.Add(1)
			for !start.Load() {
			}
			for k := rng.Intn(40); k > 0; k-- { // a little jitter
			}
			_ = shared.Start(ctx, h2)
		}()
		for ready.Load() < 2 {
			runtime.Gosched()
		}
		start.Store(true)
		wg.Wait()
		if err := enc.Encode(sconcRec{Ev: "round", R: reps, Q1: h1.got, Q2: append([]string{}, h2.got...)}); err != nil {
			return err
		}
	}
	return enc.Encode(sconcRec{Ev: "end", R: []string{}, Q1: []string{}, Q2: []string{}})
}
