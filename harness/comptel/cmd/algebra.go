package main

import (
	"context"
	"encoding/json"
	"fmt"
	"runtime"

	"go.opentelemetry.io/otel/attribute"
	"go.opentelemetry.io/otel/metric"
	"go.uber.org/zap"
	"go.uber.org/zap/zapcore"

	"go.opentelemetry.io/collector/component"
	"go.opentelemetry.io/collector/internal/telemetry"
)

// AlgOp is one operation of a script printed by CompTelGen (expected observations are carried along and ignored here).
//
//	wa     h a      pool += WithAttributeSet(pool[h], set a)
//	wo     h k      pool += WithoutAttributes(pool[h], keys k...)
//	with   h f      pool += pool[h] with Logger.With(f...)          (the component derives a child logger and keeps it)
//	named  h        pool += pool[h] with Logger.Named("sub")
//	emit   h lvl f own   one log entry at lvl with entry fields f, one span and one data point (own = own scope attributes)
type AlgOp struct {
	Op  string   `json:"op"`
	H   int      `json:"h"`
	A   []Pair   `json:"a"`
	K   []string `json:"k"`
	F   []Pair   `json:"f"`
	Lvl string   `json:"lvl"`
	Own []Pair   `json:"own"`
}

type AlgScript struct {
	Stack string  `json:"stack"`
	Ops   []AlgOp `json:"ops"`
}

type AlgObs struct {
	I     int                  `json:"i"`
	Panic *string              `json:"panic"`
	Steps []map[string][]Entry `json:"steps"` // per op: nil, or sink -> entries (emit)
	Stray []Entry              `json:"stray"`
}

func zfields(ps []Pair) []zapcore.Field {
	var out []zapcore.Field
	for _, p := range ps {
		out = append(out, zap.String(p[0], p[1]))
	}
	return out
}

func logAt(l *zap.Logger, lvl, msg string, fs []zapcore.Field) {
	switch lvl {
	case "debug":
		l.Debug(msg, fs...)
	case "info":
		l.Info(msg, fs...)
	case "warn":
		l.Warn(msg, fs...)
	case "error":
		l.Error(msg, fs...)
	default:
		panic("bad level " + lvl)
	}
}

func emitMetric(ts component.TelemetrySettings, name string, own []Pair) error {
	var opts []metric.MeterOption
	if len(own) > 0 {
		opts = append(opts, metric.WithInstrumentationAttributes(kvs(own)...))
	}
	c, err := ts.MeterProvider.Meter("probe", opts...).Int64Counter(name)
	if err != nil {
		return err
	}
	c.Add(context.Background(), 1)
	return nil
}

func runAlgebra(i int, line []byte) (obs AlgObs, err error) {
	var sc AlgScript
	if err = json.Unmarshal(line, &sc); err != nil {
		return
	}
	obs = AlgObs{I: i, Steps: make([]map[string][]Entry, len(sc.Ops)), Stray: []Entry{}}
	root, sk, err := newTelemetry(sc.Stack)
	if err != nil {
		return
	}
	defer sk.close()
	defer func() {
		if r := recover(); r != nil {
			buf := make([]byte, 4096)
			buf = buf[:runtime.Stack(buf, false)]
			obs.Panic = sptr(fmt.Sprintf("%v\n%s", r, buf))
		}
	}()
	pool := []component.TelemetrySettings{{}, root} // 1-based
	byMsg := map[string]int{}
	for k, op := range sc.Ops {
		if op.H < 1 || op.H >= len(pool) {
			return obs, fmt.Errorf("op %d: handle %d out of range", k, op.H)
		}
		ts := pool[op.H]
		switch op.Op {
		case "wa":
			pool = append(pool, telemetry.WithAttributeSet(ts, attribute.NewSet(kvs(op.A)...)))
		case "wo":
			pool = append(pool, telemetry.WithoutAttributes(ts, op.K...))
		case "with":
			ts.Logger = ts.Logger.With(zfields(op.F)...)
			pool = append(pool, ts)
		case "named":
			ts.Logger = ts.Logger.Named("sub")
			pool = append(pool, ts)
		case "emit":
			msg := fmt.Sprintf("e%d", k)
			byMsg[msg] = k
			obs.Steps[k] = map[string][]Entry{"zap": {}, "otel": {}, "span": {}, "metric": {}}
			logAt(ts.Logger, op.Lvl, msg, zfields(op.F))
			emitSpan(ts, msg, op.Own)
			if err = emitMetric(ts, msg, op.Own); err != nil {
				return
			}
		default:
			return obs, fmt.Errorf("op %d: unknown op %q", k, op.Op)
		}
	}
	all, err := sk.collect()
	if err != nil {
		return
	}
	for _, e := range all {
		if k, ok := byMsg[e.Msg]; ok {
			obs.Steps[k][e.Sink] = append(obs.Steps[k][e.Sink], e)
		} else {
			obs.Stray = append(obs.Stray, e)
		}
	}
	return obs, nil
}

func sptr(s string) *string { return &s }
