package main

// Instrumented test factories of E13: every Create* call hands the TelemetrySettings it was given to world.created, which
// emits probes through them.  The components themselves do nothing with data (routing is C09's subject).

import (
	"context"

	"go.opentelemetry.io/collector/component"
	"go.opentelemetry.io/collector/connector"
	"go.opentelemetry.io/collector/connector/xconnector"
	"go.opentelemetry.io/collector/consumer"
	"go.opentelemetry.io/collector/consumer/xconsumer"
	"go.opentelemetry.io/collector/exporter"
	"go.opentelemetry.io/collector/exporter/xexporter"
	"go.opentelemetry.io/collector/extension"
	"go.opentelemetry.io/collector/pdata/plog"
	"go.opentelemetry.io/collector/pdata/pmetric"
	"go.opentelemetry.io/collector/pdata/pprofile"
	"go.opentelemetry.io/collector/pdata/ptrace"
	"go.opentelemetry.io/collector/processor"
	"go.opentelemetry.io/collector/processor/xprocessor"
	"go.opentelemetry.io/collector/receiver"
	"go.opentelemetry.io/collector/receiver/xreceiver"
)

type comp struct {
	w     *world
	views []*View
}

func (c *comp) Start(context.Context, component.Host) error {
	for _, v := range c.views {
		c.w.probe(v, "start")
	}
	return nil
}
func (c *comp) Shutdown(context.Context) error                           { return nil }
func (c *comp) Capabilities() consumer.Capabilities                      { return consumer.Capabilities{} }
func (c *comp) ConsumeLogs(context.Context, plog.Logs) error             { return nil }
func (c *comp) ConsumeTraces(context.Context, ptrace.Traces) error       { return nil }
func (c *comp) ConsumeMetrics(context.Context, pmetric.Metrics) error    { return nil }
func (c *comp) ConsumeProfiles(context.Context, pprofile.Profiles) error { return nil }

var newCfg = func() component.Config { return &struct{}{} }

const sl = component.StabilityLevelDevelopment

func (w *world) receiverFactory(typ string) receiver.Factory {
	mk := func(sig string, set receiver.Settings) (*comp, error) {
		return &comp{w: w, views: w.created("receiver", set.ID.String(), sig, "", set.TelemetrySettings)}, nil
	}
	return xreceiver.NewFactory(component.MustNewType(typ), newCfg,
		xreceiver.WithLogs(func(_ context.Context, set receiver.Settings, _ component.Config, _ consumer.Logs) (receiver.Logs, error) {
			return mk("logs", set)
		}, sl),
		xreceiver.WithTraces(func(_ context.Context, set receiver.Settings, _ component.Config, _ consumer.Traces) (receiver.Traces, error) {
			return mk("traces", set)
		}, sl),
		xreceiver.WithMetrics(func(_ context.Context, set receiver.Settings, _ component.Config, _ consumer.Metrics) (receiver.Metrics, error) {
			return mk("metrics", set)
		}, sl),
		xreceiver.WithProfiles(func(_ context.Context, set receiver.Settings, _ component.Config, _ xconsumer.Profiles) (xreceiver.Profiles, error) {
			return mk("profiles", set)
		}, sl),
	)
}

func (w *world) processorFactory(typ string) processor.Factory {
	mk := func(sig string, set processor.Settings) (*comp, error) {
		return &comp{w: w, views: w.created("processor", set.ID.String(), sig, "", set.TelemetrySettings)}, nil
	}
	return xprocessor.NewFactory(component.MustNewType(typ), newCfg,
		xprocessor.WithLogs(func(_ context.Context, set processor.Settings, _ component.Config, _ consumer.Logs) (processor.Logs, error) {
			return mk("logs", set)
		}, sl),
		xprocessor.WithTraces(func(_ context.Context, set processor.Settings, _ component.Config, _ consumer.Traces) (processor.Traces, error) {
			return mk("traces", set)
		}, sl),
		xprocessor.WithMetrics(func(_ context.Context, set processor.Settings, _ component.Config, _ consumer.Metrics) (processor.Metrics, error) {
			return mk("metrics", set)
		}, sl),
		xprocessor.WithProfiles(func(_ context.Context, set processor.Settings, _ component.Config, _ xconsumer.Profiles) (xprocessor.Profiles, error) {
			return mk("profiles", set)
		}, sl),
	)
}

func (w *world) exporterFactory(typ string) exporter.Factory {
	mk := func(sig string, set exporter.Settings) (*comp, error) {
		return &comp{w: w, views: w.created("exporter", set.ID.String(), sig, "", set.TelemetrySettings)}, nil
	}
	return xexporter.NewFactory(component.MustNewType(typ), newCfg,
		xexporter.WithLogs(func(_ context.Context, set exporter.Settings, _ component.Config) (exporter.Logs, error) {
			return mk("logs", set)
		}, sl),
		xexporter.WithTraces(func(_ context.Context, set exporter.Settings, _ component.Config) (exporter.Traces, error) {
			return mk("traces", set)
		}, sl),
		xexporter.WithMetrics(func(_ context.Context, set exporter.Settings, _ component.Config) (exporter.Metrics, error) {
			return mk("metrics", set)
		}, sl),
		xexporter.WithProfiles(func(_ context.Context, set exporter.Settings, _ component.Config) (xexporter.Profiles, error) {
			return mk("profiles", set)
		}, sl),
	)
}

func (w *world) connectorFactory(typ string, pairs [][2]string) connector.Factory {
	mk := func(from, to string, set connector.Settings) (*comp, error) {
		return &comp{w: w, views: w.created("connector", set.ID.String(), from, to, set.TelemetrySettings)}, nil
	}
	var opts []xconnector.FactoryOption
	for _, p := range pairs {
		from, to := p[0], p[1]
		switch from + ">" + to {
		case "logs>logs":
			opts = append(opts, xconnector.WithLogsToLogs(func(_ context.Context, set connector.Settings, _ component.Config, _ consumer.Logs) (connector.Logs, error) {
				return mk(from, to, set)
			}, sl))
		case "logs>traces":
			opts = append(opts, xconnector.WithLogsToTraces(func(_ context.Context, set connector.Settings, _ component.Config, _ consumer.Traces) (connector.Logs, error) {
				return mk(from, to, set)
			}, sl))
		case "logs>metrics":
			opts = append(opts, xconnector.WithLogsToMetrics(func(_ context.Context, set connector.Settings, _ component.Config, _ consumer.Metrics) (connector.Logs, error) {
				return mk(from, to, set)
			}, sl))
		case "logs>profiles":
			opts = append(opts, xconnector.WithLogsToProfiles(func(_ context.Context, set connector.Settings, _ component.Config, _ xconsumer.Profiles) (connector.Logs, error) {
				return mk(from, to, set)
			}, sl))
		case "traces>logs":
			opts = append(opts, xconnector.WithTracesToLogs(func(_ context.Context, set connector.Settings, _ component.Config, _ consumer.Logs) (connector.Traces, error) {
				return mk(from, to, set)
			}, sl))
		case "traces>traces":
			opts = append(opts, xconnector.WithTracesToTraces(func(_ context.Context, set connector.Settings, _ component.Config, _ consumer.Traces) (connector.Traces, error) {
				return mk(from, to, set)
			}, sl))
		case "traces>metrics":
			opts = append(opts, xconnector.WithTracesToMetrics(func(_ context.Context, set connector.Settings, _ component.Config, _ consumer.Metrics) (connector.Traces, error) {
				return mk(from, to, set)
			}, sl))
		case "traces>profiles":
			opts = append(opts, xconnector.WithTracesToProfiles(func(_ context.Context, set connector.Settings, _ component.Config, _ xconsumer.Profiles) (connector.Traces, error) {
				return mk(from, to, set)
			}, sl))
		case "metrics>logs":
			opts = append(opts, xconnector.WithMetricsToLogs(func(_ context.Context, set connector.Settings, _ component.Config, _ consumer.Logs) (connector.Metrics, error) {
				return mk(from, to, set)
			}, sl))
		case "metrics>traces":
			opts = append(opts, xconnector.WithMetricsToTraces(func(_ context.Context, set connector.Settings, _ component.Config, _ consumer.Traces) (connector.Metrics, error) {
				return mk(from, to, set)
			}, sl))
		case "metrics>metrics":
			opts = append(opts, xconnector.WithMetricsToMetrics(func(_ context.Context, set connector.Settings, _ component.Config, _ consumer.Metrics) (connector.Metrics, error) {
				return mk(from, to, set)
			}, sl))
		case "metrics>profiles":
			opts = append(opts, xconnector.WithMetricsToProfiles(func(_ context.Context, set connector.Settings, _ component.Config, _ xconsumer.Profiles) (connector.Metrics, error) {
				return mk(from, to, set)
			}, sl))
		case "profiles>logs":
			opts = append(opts, xconnector.WithProfilesToLogs(func(_ context.Context, set connector.Settings, _ component.Config, _ consumer.Logs) (xconnector.Profiles, error) {
				return mk(from, to, set)
			}, sl))
		case "profiles>traces":
			opts = append(opts, xconnector.WithProfilesToTraces(func(_ context.Context, set connector.Settings, _ component.Config, _ consumer.Traces) (xconnector.Profiles, error) {
				return mk(from, to, set)
			}, sl))
		case "profiles>metrics":
			opts = append(opts, xconnector.WithProfilesToMetrics(func(_ context.Context, set connector.Settings, _ component.Config, _ consumer.Metrics) (xconnector.Profiles, error) {
				return mk(from, to, set)
			}, sl))
		case "profiles>profiles":
			opts = append(opts, xconnector.WithProfilesToProfiles(func(_ context.Context, set connector.Settings, _ component.Config, _ xconsumer.Profiles) (xconnector.Profiles, error) {
				return mk(from, to, set)
			}, sl))
		default:
			panic("bad pair " + from + ">" + to)
		}
	}
	return xconnector.NewFactory(component.MustNewType(typ), newCfg, opts...)
}

func (w *world) extensionFactory(typ string) extension.Factory {
	return extension.NewFactory(component.MustNewType(typ), newCfg,
		func(_ context.Context, set extension.Settings, _ component.Config) (extension.Extension, error) {
			return &comp{w: w, views: w.created("extension", set.ID.String(), "", "", set.TelemetrySettings)}, nil
		}, sl)
}
