package main

import (
	"bufio"
	"context"
	"encoding/json"
	"fmt"
	"os"
	"runtime"
	"sort"
	"strings"
	"sync"
	"time"

	"go.opentelemetry.io/otel/attribute"
	"go.opentelemetry.io/otel/log"
	"go.opentelemetry.io/otel/log/logtest"
	sdkmetric "go.opentelemetry.io/otel/sdk/metric"
	"go.opentelemetry.io/otel/sdk/metric/metricdata"
	sdktrace "go.opentelemetry.io/otel/sdk/trace"
	"go.opentelemetry.io/otel/sdk/trace/tracetest"
	"go.opentelemetry.io/otel/trace"
	"go.uber.org/zap"
	"go.uber.org/zap/zapcore"
	"go.uber.org/zap/zaptest/observer"

	"go.opentelemetry.io/collector/component"
	"go.opentelemetry.io/collector/internal/telemetry/componentattribute"
	"go.opentelemetry.io/collector/pdata/pcommon"
	svctel "go.opentelemetry.io/collector/service/telemetry"
)

// Pair is one key/value; observed field lists keep order and duplicates.
type Pair [2]string

// sinks is everything the telemetry handed to the components ends up in.
type sinks struct {
	stack  string
	logs   *observer.ObservedLogs
	otel   *logtest.Recorder // nil unless the stack has the otel tee
	spans  *tracetest.SpanRecorder
	reader *sdkmetric.ManualReader
	tp     *sdktrace.TracerProvider
	mp     *sdkmetric.MeterProvider
}

const otelScope = "go.opentelemetry.io/collector/service/telemetry"

// baseFields are on the service's core before any component attribute is injected (service::telemetry::logs::initial_fields).
var baseFields = []zapcore.Field{zap.String("svc", "v")}

// newTelemetry builds the service-level TelemetrySettings the way service.New does, with in-memory sinks.
//
//	console       service/telemetry factory CreateLogger (real logger.go), core replaced by an observer through ZapOptions
//	sampled       the same with logs::sampling enabled (NewWrapperCoreWithAttributes around the console core)
//	tee           console core + NewOTelTeeCoreWithAttributes into a logtest.Recorder (what logger.go does with logs::processors)
//	teesampled    tee inside the sampler wrapper
func newTelemetry(stack string) (component.TelemetrySettings, *sinks, error) {
	s := &sinks{stack: stack}
	obsCore, logs := observer.New(zapcore.DebugLevel)
	s.logs = logs
	base := obsCore.With(baseFields)
	var logger *zap.Logger
	sampling := &svctel.LogsSamplingConfig{Enabled: true, Tick: 10 * time.Second, Initial: 1000000, Thereafter: 1}
	switch stack {
	case "console", "sampled":
		cfg := svctel.Config{Logs: svctel.LogsConfig{Level: zapcore.DebugLevel, Encoding: "json", DisableCaller: true, DisableStacktrace: true}}
		if stack == "sampled" {
			cfg.Logs.Sampling = sampling
		}
		l, _, err := svctel.NewFactory().CreateLogger(context.Background(), svctel.Settings{
			ZapOptions: []zap.Option{zap.WrapCore(func(zapcore.Core) zapcore.Core { return base })},
		}, &cfg)
		if err != nil {
			return component.TelemetrySettings{}, nil, err
		}
		logger = l
	case "tee", "teesampled":
		s.otel = logtest.NewRecorder()
		core := componentattribute.NewConsoleCoreWithAttributes(base, attribute.NewSet())
		core = componentattribute.NewOTelTeeCoreWithAttributes(core, s.otel, otelScope, zapcore.InfoLevel, attribute.NewSet())
		if stack == "teesampled" {
			core = componentattribute.NewWrapperCoreWithAttributes(core, func(c zapcore.Core) zapcore.Core {
				return zapcore.NewSamplerWithOptions(c, sampling.Tick, sampling.Initial, sampling.Thereafter)
			})
		}
		logger = zap.New(core)
	default:
		return component.TelemetrySettings{}, nil, fmt.Errorf("unknown stack %q", stack)
	}
	s.spans = tracetest.NewSpanRecorder()
	s.tp = sdktrace.NewTracerProvider(sdktrace.WithSpanProcessor(s.spans))
	s.reader = sdkmetric.NewManualReader()
	s.mp = sdkmetric.NewMeterProvider(sdkmetric.WithReader(s.reader))
	return component.TelemetrySettings{Logger: logger, TracerProvider: s.tp, MeterProvider: s.mp, Resource: pcommon.NewResource()}, s, nil
}

func (s *sinks) close() {
	if s.tp == nil {
		return
	}
	_ = s.tp.Shutdown(context.Background())
	_ = s.mp.Shutdown(context.Background())
}

// Entry is one observed emission.
type Entry struct {
	Msg    string `json:"msg"`            // log message / span name / instrument name
	Sink   string `json:"sink"`           // zap | otel | span | metric
	Lvl    string `json:"lvl,omitempty"`  // zap / otel: level
	Name   string `json:"name,omitempty"` // zap: logger name
	Fields []Pair `json:"f"`              // zap: context + entry fields in order; otel: record attributes; span / metric: nil
	Scope  []Pair `json:"scope"`          // otel / span / metric: instrumentation scope attributes
}

func fieldStr(f zapcore.Field) string {
	switch f.Type {
	case zapcore.StringType:
		return f.String
	case zapcore.Int64Type, zapcore.Int32Type, zapcore.Int16Type, zapcore.Int8Type:
		return fmt.Sprint(f.Integer)
	case zapcore.ErrorType:
		return fmt.Sprint(f.Interface)
	}
	enc := zapcore.NewMapObjectEncoder()
	f.AddTo(enc)
	return fmt.Sprint(enc.Fields[f.Key])
}

func setPairs(set attribute.Set) []Pair {
	out := []Pair{}
	for _, kv := range set.ToSlice() {
		out = append(out, Pair{string(kv.Key), kv.Value.Emit()})
	}
	return out
}

// collect returns every emission that reached a sink, in a deterministic order.
func (s *sinks) collect() ([]Entry, error) {
	out := []Entry{}
	for _, e := range s.logs.All() {
		en := Entry{Msg: e.Message, Sink: "zap", Lvl: e.Level.String(), Name: e.LoggerName, Fields: []Pair{}}
		for _, f := range e.Context {
			en.Fields = append(en.Fields, Pair{f.Key, fieldStr(f)})
		}
		out = append(out, en)
	}
	if s.otel != nil {
		for _, sc := range s.otel.Result() {
			for _, r := range sc.Records {
				en := Entry{Msg: r.Body().AsString(), Sink: "otel", Lvl: strings.ToLower(r.SeverityText()), Fields: []Pair{}, Scope: setPairs(sc.Attributes)}
				if sc.Name != otelScope {
					en.Name = sc.Name
				}
				r.WalkAttributes(func(kv log.KeyValue) bool {
					en.Fields = append(en.Fields, Pair{kv.Key, kv.Value.String()})
					return true
				})
				out = append(out, en)
			}
		}
	}
	if s.spans == nil {
		return out, nil
	}
	for _, sp := range s.spans.Ended() {
		out = append(out, Entry{Msg: sp.Name(), Sink: "span", Scope: setPairs(sp.InstrumentationScope().Attributes)})
	}
	var rm metricdata.ResourceMetrics
	if err := s.reader.Collect(context.Background(), &rm); err != nil {
		return nil, err
	}
	var ms []Entry
	for _, sm := range rm.ScopeMetrics {
		for _, m := range sm.Metrics {
			ms = append(ms, Entry{Msg: m.Name, Sink: "metric", Scope: setPairs(sm.Scope.Attributes)})
		}
	}
	sort.SliceStable(ms, func(i, j int) bool { return ms[i].Msg < ms[j].Msg })
	return append(out, ms...), nil
}

// emitSpan / emitMetric: one span / one data point through the providers of ts; own = the component's own scope attributes.
func emitSpan(ts component.TelemetrySettings, name string, own []Pair) {
	var opts []trace.TracerOption
	if len(own) > 0 {
		opts = append(opts, trace.WithInstrumentationAttributes(kvs(own)...))
	}
	_, sp := ts.TracerProvider.Tracer("probe", opts...).Start(context.Background(), name)
	sp.End()
}

func kvs(ps []Pair) []attribute.KeyValue {
	var out []attribute.KeyValue
	for _, p := range ps {
		out = append(out, attribute.String(p[0], p[1]))
	}
	return out
}

// ---------------------------------------------------------------- line-parallel runner

func readLines(path string) ([][]byte, error) {
	f, err := os.Open(path)
	if err != nil {
		return nil, err
	}
	defer f.Close()
	var lines [][]byte
	sc := bufio.NewScanner(f)
	sc.Buffer(make([]byte, 1<<20), 1<<26)
	for sc.Scan() {
		if len(sc.Bytes()) > 0 {
			lines = append(lines, append([]byte(nil), sc.Bytes()...))
		}
	}
	return lines, sc.Err()
}

func runLines(in, out string, f func(i int, line []byte) (any, error)) error {
	lines, err := readLines(in)
	if err != nil {
		return err
	}
	results := make([][]byte, len(lines))
	var wg sync.WaitGroup
	var firstErr error
	var emu sync.Mutex
	workers := runtime.NumCPU()
	if workers > 6 {
		workers = 6
	}
	ch := make(chan int)
	for k := 0; k < workers; k++ {
		wg.Add(1)
		go func() {
			defer wg.Done()
			for i := range ch {
				obs, err := f(i, lines[i])
				var b []byte
				if err == nil {
					b, err = json.Marshal(obs)
				}
				if err != nil {
					emu.Lock()
					if firstErr == nil {
						firstErr = fmt.Errorf("line %d: %w", i, err)
					}
					emu.Unlock()
					continue
				}
				results[i] = b
			}
		}()
	}
	for i := range lines {
		ch <- i
	}
	close(ch)
	wg.Wait()
	if firstErr != nil {
		return firstErr
	}
	fh, err := os.Create(out)
	if err != nil {
		return err
	}
	bw := bufio.NewWriter(fh)
	for _, b := range results {
		bw.Write(b)
		bw.WriteByte('\n')
	}
	if err := bw.Flush(); err != nil {
		return err
	}
	return fh.Close()
}
