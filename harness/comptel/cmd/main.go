// Command comptel drives the real component-telemetry code of /repo (E13, ComponentTelemetryIdentity).
//
//	graph   <configs.ndjson> <observed.ndjson> <seed>   build every configuration with the real graph.Build + extensions.New,
//	                                                     instrumented factories emit probes through the TelemetrySettings they are given
//	algebra <scripts.ndjson> <observed.ndjson> <seed>   replay operation sequences (WithAttributeSet / WithoutAttributes / zap With /
//	                                                     Named / emit) on real loggers, tracer and meter providers
//	real    <configs.ndjson> <observed.ndjson> <seed>   graphs holding the REAL otlp receiver / memory_limiter processor
package main

import (
	"fmt"
	"os"
	"strconv"
)

func main() {
	if len(os.Args) < 5 {
		fmt.Fprintln(os.Stderr, "usage: comptel graph|algebra|real <in.ndjson> <out.ndjson> <seed>")
		os.Exit(64)
	}
	seed, err := strconv.ParseInt(os.Args[4], 10, 64)
	if err != nil {
		fmt.Fprintln(os.Stderr, "bad seed:", err)
		os.Exit(64)
	}
	switch os.Args[1] {
	case "graph", "real":
		err = runLines(os.Args[2], os.Args[3], func(i int, line []byte) (any, error) { return runGraph(i, line, seed, os.Args[1] == "real") })
	case "algebra":
		err = runLines(os.Args[2], os.Args[3], func(i int, line []byte) (any, error) { return runAlgebra(i, line) })
	default:
		err = fmt.Errorf("unknown mode %q", os.Args[1])
	}
	if err != nil {
		fmt.Fprintln(os.Stderr, "harness error:", err)
		os.Exit(1)
	}
}
