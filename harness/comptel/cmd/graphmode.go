package main

import (
	"context"
	"encoding/json"
	"fmt"
	"hash/fnv"
	"math/rand"
	"runtime"
	"strings"
	"sync"
	"time"

	"go.uber.org/zap"
	"go.uber.org/zap/zapcore"
	"go.uber.org/zap/zaptest/observer"

	"go.opentelemetry.io/collector/component"
	"go.opentelemetry.io/collector/component/componentstatus"
	"go.opentelemetry.io/collector/component/componenttest"
	"go.opentelemetry.io/collector/config/configtelemetry"
	"go.opentelemetry.io/collector/connector"
	"go.opentelemetry.io/collector/exporter"
	"go.opentelemetry.io/collector/extension"
	"go.opentelemetry.io/collector/internal/telemetry"
	"go.opentelemetry.io/collector/pipeline"
	"go.opentelemetry.io/collector/processor"
	"go.opentelemetry.io/collector/processor/memorylimiterprocessor"
	"go.opentelemetry.io/collector/receiver"
	"go.opentelemetry.io/collector/receiver/otlpreceiver"
	"go.opentelemetry.io/collector/service"
	"go.opentelemetry.io/collector/service/extensions"
	"go.opentelemetry.io/collector/service/internal/builders"
	"go.opentelemetry.io/collector/service/internal/graph"
	"go.opentelemetry.io/collector/service/pipelines"
	svctel "go.opentelemetry.io/collector/service/telemetry"
)

// PipeCfg / ConnCfg / Config mirror the JSON printed by CompTelGen (configuration part) plus what checks/E13.py adds.
type PipeCfg struct {
	Sig  string   `json:"sig"`
	Name string   `json:"name"`
	R    []string `json:"r"`
	P    []string `json:"p"`
	E    []string `json:"e"`
}

type ConnCfg struct {
	ID  string      `json:"id"`
	Sup [][2]string `json:"sup"`
}

type Config struct {
	Pipes []PipeCfg `json:"pipes"`
	Conns []ConnCfg `json:"conns"`
	Exts  []string  `json:"exts"`
	Stack string    `json:"stack"`
	// Svc: build the same configuration through the public service.New / Start / Shutdown (logs only: the service's
	// own providers have no in-memory reader)
	Svc bool `json:"svc"`
	// Drop: component id -> attribute keys its (test) factory removes with telemetry.WithoutAttributes, the way the
	// otlp receiver / memory_limiter processor do for instances they unify
	Drop map[string][]string `json:"drop"`
}

// ProbeEntry is one emission of one view, with what the component itself added (own).
type ProbeEntry struct {
	Phase string `json:"phase"`
	Probe string `json:"probe"`
	Sink  string `json:"sink"`
	Lvl   string `json:"lvl"`
	Name  string `json:"name"`
	Own   []Pair `json:"own"`
	F     []Pair `json:"f"` // zap: all fields in order; otel: scope attributes followed by record attributes; span / metric: scope attributes
}

// View is one TelemetrySettings value in the hands of one created component instance.
type View struct {
	Tok     string       `json:"tok"`
	K       string       `json:"k"`
	ID      string       `json:"id"`
	Sig     string       `json:"sig"`
	Sig2    string       `json:"sig2"`
	Drop    []string     `json:"drop"`
	May     bool         `json:"may"` // real component that unifies instances: which omittable keys it drops is its own business
	Entries []ProbeEntry `json:"entries"`
	ts      component.TelemetrySettings
}

type GraphObs struct {
	I        int      `json:"i"`
	Stack    string   `json:"stack"`
	BuildErr *string  `json:"build_err"`
	Panic    *string  `json:"panic"`
	Views    []*View  `json:"views"`
	Stray    []Entry  `json:"stray"`    // emissions that belong to no view and are not service messages
	Expected int      `json:"expected"` // emissions the probes made (per sink counted separately)
	Missing  []string `json:"missing"`  // probe emissions that reached no sink although their level is enabled
}

type world struct {
	mu      sync.Mutex
	views   []*View
	drop    map[string][]string
	emitted map[string][]Pair // msg -> own
}

func (w *world) newView(k, id, sig, sig2 string, drop []string, ts component.TelemetrySettings) *View {
	w.mu.Lock()
	defer w.mu.Unlock()
	if drop == nil {
		drop = []string{}
	}
	v := &View{Tok: fmt.Sprintf("v%d", len(w.views)+1), K: k, ID: id, Sig: sig, Sig2: sig2, Drop: drop, Entries: []ProbeEntry{}, ts: ts}
	w.views = append(w.views, v)
	return v
}

var ownCF = []Pair{{"cf", "1"}}
var ownChain = []Pair{{"cf", "1"}, {"n", "2"}}
var ownEF = []Pair{{"ef", "x"}}
var ownScope = []Pair{{"own", "1"}}

// probe emits through every part of the view's TelemetrySettings: log entries at every level, through derived child
// loggers, with entry fields; spans and data points without and with own scope attributes.
func (w *world) probe(v *View, phase string) {
	ts := v.ts
	m := func(p string, own []Pair) string {
		msg := v.Tok + "." + phase + "." + p
		w.mu.Lock()
		w.emitted[msg] = own
		w.mu.Unlock()
		return msg
	}
	L := ts.Logger
	L.Debug(m("debug", nil))
	L.Info(m("info", nil))
	L.Warn(m("warn", nil))
	L.Error(m("error", nil))
	L.With(zap.String("cf", "1")).Info(m("with", ownCF))
	L.Named("sub").Info(m("named", nil))
	L.With(zap.String("cf", "1")).Named("n").With(zap.String("n", "2")).Warn(m("chain", ownChain))
	L.Info(m("entryf", ownEF), zap.String("ef", "x"))
	emitSpan(ts, m("span", nil), nil)
	emitSpan(ts, m("spanown", ownScope), ownScope)
	if err := emitMetric(ts, m("metric", nil), nil); err != nil {
		panic(err)
	}
	if err := emitMetric(ts, m("metricown", ownScope), ownScope); err != nil {
		panic(err)
	}
}

// created is called by every test factory: probes the settings as given; for ids listed in Drop also a derived
// WithoutAttributes value, and the given one once more afterwards (the parent is unaffected by the child).
func (w *world) created(k, id, sig, sig2 string, ts component.TelemetrySettings) []*View {
	v := w.newView(k, id, sig, sig2, nil, ts)
	w.probe(v, "create")
	vs := []*View{v}
	if keys := w.drop[id]; len(keys) > 0 {
		v2 := w.newView(k, id, sig, sig2, keys, telemetry.WithoutAttributes(ts, keys...))
		w.probe(v2, "create")
		w.probe(v, "after")
		vs = append(vs, v2)
	}
	return vs
}

func mustID(s string) component.ID {
	t, n, has := strings.Cut(s, "/")
	if has {
		return component.MustNewIDWithName(t, n)
	}
	return component.MustNewID(t)
}

func pipeID(p PipeCfg) pipeline.ID {
	if p.Name == "" {
		return pipeline.MustNewID(p.Sig)
	}
	return pipeline.MustNewIDWithName(p.Sig, p.Name)
}

func shuffled(rng *rand.Rand, in []string) []string {
	out := append([]string(nil), in...)
	rng.Shuffle(len(out), func(i, j int) { out[i], out[j] = out[j], out[i] })
	return out
}

func runGraph(i int, line []byte, seed int64, _ bool) (obs GraphObs, err error) {
	var cfg Config
	if err = json.Unmarshal(line, &cfg); err != nil {
		return
	}
	if cfg.Stack == "" {
		cfg.Stack = "console"
	}
	obs = GraphObs{I: i, Stack: cfg.Stack, Views: []*View{}, Stray: []Entry{}, Missing: []string{}}
	h := fnv.New64a()
	fmt.Fprintf(h, "%d/%d", seed, i)
	rng := rand.New(rand.NewSource(int64(h.Sum64())))
	root, sk, err := newTelemetry(cfg.Stack)
	if err != nil {
		return
	}
	defer sk.close()
	w := &world{drop: cfg.Drop, emitted: map[string][]Pair{}}
	defer func() {
		if r := recover(); r != nil {
			buf := make([]byte, 4096)
			buf = buf[:runtime.Stack(buf, false)]
			obs.Panic = sptr(fmt.Sprintf("%v\n%s", r, buf))
		}
	}()

	rcvCfg, procCfg, expCfg, connCfg, extCfg := map[component.ID]component.Config{}, map[component.ID]component.Config{}, map[component.ID]component.Config{}, map[component.ID]component.Config{}, map[component.ID]component.Config{}
	rcvFac, procFac, expFac, connFac, extFac := map[component.Type]receiver.Factory{}, map[component.Type]processor.Factory{}, map[component.Type]exporter.Factory{}, map[component.Type]connector.Factory{}, map[component.Type]extension.Factory{}
	isConn := map[string]bool{}
	for _, c := range cfg.Conns {
		isConn[c.ID] = true
		id := mustID(c.ID)
		connCfg[id] = &struct{}{}
		connFac[id.Type()] = w.connectorFactory(id.Type().String(), c.Sup)
	}
	real := map[string]string{} // real component ids -> kind
	pipes := pipelines.Config{}
	ids := func(l []string) []component.ID {
		out := make([]component.ID, 0, len(l))
		for _, s := range l {
			out = append(out, mustID(s))
		}
		return out
	}
	for _, p := range cfg.Pipes {
		for _, r := range p.R {
			if isConn[r] {
				continue
			}
			id := mustID(r)
			if _, ok := rcvCfg[id]; ok {
				continue
			}
			if id.Type().String() == "otlp" {
				f := otlpreceiver.NewFactory()
				c := f.CreateDefaultConfig().(*otlpreceiver.Config)
				c.GRPC.NetAddr.Endpoint = "127.0.0.1:0"
				c.HTTP.ServerConfig.Endpoint = "127.0.0.1:0"
				rcvCfg[id], rcvFac[id.Type()] = c, f
				real[r] = "receiver"
				continue
			}
			rcvCfg[id] = &struct{}{}
			rcvFac[id.Type()] = w.receiverFactory(id.Type().String())
		}
		for _, x := range p.P {
			id := mustID(x)
			if _, ok := procCfg[id]; ok {
				continue
			}
			if id.Type().String() == "memory_limiter" {
				f := procFac[id.Type()]
				if f == nil {
					f = memorylimiterprocessor.NewFactory()
				}
				c := f.CreateDefaultConfig().(*memorylimiterprocessor.Config)
				c.CheckInterval = time.Second
				c.MemoryLimitMiB = 1 << 20
				procCfg[id], procFac[id.Type()] = c, f
				real[x] = "processor"
				continue
			}
			procCfg[id] = &struct{}{}
			procFac[id.Type()] = w.processorFactory(id.Type().String())
		}
		for _, e := range p.E {
			if isConn[e] {
				continue
			}
			id := mustID(e)
			if _, ok := expCfg[id]; !ok {
				expCfg[id] = &struct{}{}
				expFac[id.Type()] = w.exporterFactory(id.Type().String())
			}
		}
		pipes[pipeID(p)] = &pipelines.PipelineConfig{Receivers: ids(shuffled(rng, p.R)), Processors: ids(p.P), Exporters: ids(shuffled(rng, p.E))}
	}
	for _, x := range cfg.Exts {
		id := mustID(x)
		extCfg[id] = &struct{}{}
		extFac[id.Type()] = w.extensionFactory(id.Type().String())
	}

	ctx := context.Background()
	info := component.NewDefaultBuildInfo()
	if cfg.Svc {
		sk.close()
		obsCore, logs := observer.New(zapcore.DebugLevel)
		sk = &sinks{stack: cfg.Stack, logs: logs}
		base := obsCore.With(baseFields)
		scfg := service.Config{
			Telemetry: svctel.Config{
				Logs:    svctel.LogsConfig{Level: zapcore.DebugLevel, Encoding: "json", DisableCaller: true, DisableStacktrace: true},
				Metrics: svctel.MetricsConfig{Level: configtelemetry.LevelNone},
			},
			Extensions: extensions.Config(ids(shuffled(rng, cfg.Exts))),
			Pipelines:  pipes,
		}
		if cfg.Stack == "sampled" {
			scfg.Telemetry.Logs.Sampling = &svctel.LogsSamplingConfig{Enabled: true, Tick: 10 * time.Second, Initial: 1000000, Thereafter: 1}
		}
		srv, nerr := service.New(ctx, service.Settings{
			BuildInfo:        info,
			ReceiversConfigs: rcvCfg, ReceiversFactories: rcvFac,
			ProcessorsConfigs: procCfg, ProcessorsFactories: procFac,
			ExportersConfigs: expCfg, ExportersFactories: expFac,
			ConnectorsConfigs: connCfg, ConnectorsFactories: connFac,
			ExtensionsConfigs: extCfg, ExtensionsFactories: extFac,
			AsyncErrorChannel: make(chan error, 8),
			LoggingOptions:    []zap.Option{zap.WrapCore(func(zapcore.Core) zapcore.Core { return base })},
		}, scfg)
		if nerr != nil {
			obs.BuildErr = sptr(nerr.Error())
			return obs, nil
		}
		if serr := srv.Start(ctx); serr != nil {
			panic("service.Start: " + serr.Error())
		}
		w.mu.Lock()
		views := append([]*View(nil), w.views...)
		w.mu.Unlock()
		for _, v := range views {
			w.probe(v, "late")
		}
		_ = srv.Shutdown(ctx)
		return finishGraph(&obs, w, sk, true)
	}
	buildExts := func() *extensions.Extensions {
		exts, xerr := extensions.New(ctx, extensions.Settings{Telemetry: root, BuildInfo: info, Extensions: builders.NewExtension(extCfg, extFac)},
			extensions.Config(ids(shuffled(rng, cfg.Exts))))
		if xerr != nil {
			panic("extensions.New: " + xerr.Error())
		}
		return exts
	}
	// service.New builds the graph first, then the extensions; the order must not matter for what each instance gets
	var exts *extensions.Extensions
	extsFirst := rng.Intn(2) == 0
	if extsFirst {
		exts = buildExts()
	}
	g, berr := graph.Build(ctx, graph.Settings{
		Telemetry:        root,
		BuildInfo:        info,
		ReceiverBuilder:  builders.NewReceiver(rcvCfg, rcvFac),
		ProcessorBuilder: builders.NewProcessor(procCfg, procFac),
		ExporterBuilder:  builders.NewExporter(expCfg, expFac),
		ConnectorBuilder: builders.NewConnector(connCfg, connFac),
		PipelineConfigs:  pipes,
		ReportStatus:     func(*componentstatus.InstanceID, *componentstatus.Event) {},
	})
	if berr != nil {
		obs.BuildErr = sptr(berr.Error())
		return obs, nil
	}
	_ = g
	if !extsFirst {
		exts = buildExts()
	}
	// the service starts the extensions (its own "Extension is starting..." entries carry the extension's attributes)
	if serr := exts.Start(ctx, componenttest.NewNopHost()); serr != nil {
		panic("extensions.Start: " + serr.Error())
	}
	// every view once more, in another order, after everything else was created
	w.mu.Lock()
	views := append([]*View(nil), w.views...)
	w.mu.Unlock()
	rng.Shuffle(len(views), func(a, b int) { views[a], views[b] = views[b], views[a] })
	for _, v := range views {
		w.probe(v, "late")
	}
	_ = exts.Shutdown(ctx)
	return finishGraph(&obs, w, sk, false)
}

// finishGraph attributes everything that reached a sink to the views.
func finishGraph(op *GraphObs, w *world, sk *sinks, logsOnly bool) (GraphObs, error) {
	obs := *op
	all, cerr := sk.collect()
	if cerr != nil {
		return obs, cerr
	}
	byTok := map[string]*View{}
	for _, v := range w.views {
		byTok[v.Tok] = v
	}
	seen := map[string]bool{}
	var pendingSvc []Entry // service entries about an extension whose Start has not probed yet
	var lastStarted *View
	realViews := map[string]*View{}
	for _, e := range all {
		if own, ok := w.emitted[e.Msg]; ok {
			parts := strings.SplitN(e.Msg, ".", 3)
			v := byTok[parts[0]]
			f := e.Fields
			if e.Sink != "zap" {
				f = append(append([]Pair{}, e.Scope...), e.Fields...)
			}
			if own == nil {
				own = []Pair{}
			}
			seen[e.Msg+"@"+e.Sink] = true
			if parts[1] == "start" && e.Sink == "zap" && len(v.Drop) == 0 {
				for _, s := range pendingSvc {
					v.Entries = append(v.Entries, ProbeEntry{Phase: "svc", Probe: s.Msg, Sink: "zap", Lvl: s.Lvl, Name: s.Name, Own: []Pair{}, F: s.Fields})
				}
				pendingSvc, lastStarted = nil, v
			}
			v.Entries = append(v.Entries, ProbeEntry{Phase: parts[1], Probe: parts[2], Sink: e.Sink, Lvl: e.Lvl, Name: e.Name, Own: own, F: f})
			continue
		}
		if e.Sink == "zap" || e.Sink == "otel" {
			f := e.Fields
			if e.Sink == "otel" {
				f = append(append([]Pair{}, e.Scope...), e.Fields...)
			}
			switch e.Msg {
			case "Extension is starting...":
				if e.Sink == "zap" {
					pendingSvc = append(pendingSvc, e)
					continue
				}
			case "Extension started.":
				if e.Sink == "zap" && lastStarted != nil {
					lastStarted.Entries = append(lastStarted.Entries, ProbeEntry{Phase: "svc", Probe: e.Msg, Sink: "zap", Lvl: e.Lvl, Name: e.Name, Own: []Pair{}, F: e.Fields})
					continue
				}
			case "created signal-agnostic logger", "created singleton logger":
				// the real otlp receiver / memory_limiter processor say so once per unified instance, through the logger they keep
				k := "receiver"
				if e.Msg == "created singleton logger" {
					k = "processor"
				}
				key := fmt.Sprintf("%s#%d", k, len(realViews))
				rv := &View{Tok: "real" + fmt.Sprint(len(realViews)+1), K: k, May: true, Drop: []string{}, Entries: []ProbeEntry{}}
				if k == "receiver" {
					rv.ID = "otlp"
				} else {
					rv.ID = "memory_limiter"
				}
				rv.Entries = append(rv.Entries, ProbeEntry{Phase: "create", Probe: e.Msg, Sink: e.Sink, Lvl: e.Lvl, Name: e.Name, Own: []Pair{}, F: f})
				realViews[key] = rv
				obs.Views = append(obs.Views, rv)
				continue
			case "Starting extensions...", "Stopping extensions...":
				continue
			}
		}
		obs.Stray = append(obs.Stray, e)
	}
	obs.Views = append(obs.Views, w.views...)
	// every probe emission must have arrived at every sink whose level admits it
	for msg := range w.emitted {
		parts := strings.SplitN(msg, ".", 3)
		sinksOf := []string{"zap"}
		switch parts[2] {
		case "span", "spanown":
			sinksOf = []string{"span"}
			if logsOnly {
				sinksOf = nil
			}
		case "metric", "metricown":
			sinksOf = []string{"metric"}
			if logsOnly {
				sinksOf = nil
			}
		default:
			if sk.otel != nil && parts[2] != "debug" {
				sinksOf = append(sinksOf, "otel")
			}
		}
		for _, s := range sinksOf {
			obs.Expected++
			if !seen[msg+"@"+s] {
				obs.Missing = append(obs.Missing, msg+"@"+s)
			}
		}
	}
	return obs, nil
}
