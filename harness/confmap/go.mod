module verif.local/confmapharness

go 1.23.0

require (
	go.opentelemetry.io/collector/confmap v1.30.0
	go.opentelemetry.io/collector/confmap/provider/envprovider v0.0.0
	go.opentelemetry.io/collector/confmap/provider/yamlprovider v0.0.0
	sigs.k8s.io/yaml v1.4.0
)

require (
	github.com/go-viper/mapstructure/v2 v2.2.1 // indirect
	github.com/hashicorp/go-version v1.7.0 // indirect
	github.com/knadh/koanf/maps v0.1.2 // indirect
	github.com/knadh/koanf/providers/confmap v1.0.0 // indirect
	github.com/knadh/koanf/v2 v2.2.0 // indirect
	github.com/mitchellh/copystructure v1.2.0 // indirect
	github.com/mitchellh/reflectwalk v1.0.2 // indirect
	go.opentelemetry.io/collector/featuregate v1.30.0 // indirect
	go.uber.org/multierr v1.11.0 // indirect
	go.uber.org/zap v1.27.0 // indirect
)

replace (
	go.opentelemetry.io/collector => /tmp/wt-C12
	go.opentelemetry.io/collector/client => /tmp/wt-C12/client
	go.opentelemetry.io/collector/cmd/builder => /tmp/wt-C12/cmd/builder
	go.opentelemetry.io/collector/cmd/mdatagen => /tmp/wt-C12/cmd/mdatagen
	go.opentelemetry.io/collector/cmd/otelcorecol => /tmp/wt-C12/cmd/otelcorecol
	go.opentelemetry.io/collector/component => /tmp/wt-C12/component
	go.opentelemetry.io/collector/component/componentstatus => /tmp/wt-C12/component/componentstatus
	go.opentelemetry.io/collector/component/componenttest => /tmp/wt-C12/component/componenttest
	go.opentelemetry.io/collector/config/configauth => /tmp/wt-C12/config/configauth
	go.opentelemetry.io/collector/config/configcompression => /tmp/wt-C12/config/configcompression
	go.opentelemetry.io/collector/config/configgrpc => /tmp/wt-C12/config/configgrpc
	go.opentelemetry.io/collector/config/confighttp => /tmp/wt-C12/config/confighttp
	go.opentelemetry.io/collector/config/confighttp/xconfighttp => /tmp/wt-C12/config/confighttp/xconfighttp
	go.opentelemetry.io/collector/config/configmiddleware => /tmp/wt-C12/config/configmiddleware
	go.opentelemetry.io/collector/config/confignet => /tmp/wt-C12/config/confignet
	go.opentelemetry.io/collector/config/configopaque => /tmp/wt-C12/config/configopaque
	go.opentelemetry.io/collector/config/configretry => /tmp/wt-C12/config/configretry
	go.opentelemetry.io/collector/config/configtelemetry => /tmp/wt-C12/config/configtelemetry
	go.opentelemetry.io/collector/config/configtls => /tmp/wt-C12/config/configtls
	go.opentelemetry.io/collector/confmap => /tmp/wt-C12/confmap
	go.opentelemetry.io/collector/confmap/internal/e2e => /tmp/wt-C12/confmap/internal/e2e
	go.opentelemetry.io/collector/confmap/provider/envprovider => /tmp/wt-C12/confmap/provider/envprovider
	go.opentelemetry.io/collector/confmap/provider/fileprovider => /tmp/wt-C12/confmap/provider/fileprovider
	go.opentelemetry.io/collector/confmap/provider/httpprovider => /tmp/wt-C12/confmap/provider/httpprovider
	go.opentelemetry.io/collector/confmap/provider/httpsprovider => /tmp/wt-C12/confmap/provider/httpsprovider
	go.opentelemetry.io/collector/confmap/provider/yamlprovider => /tmp/wt-C12/confmap/provider/yamlprovider
	go.opentelemetry.io/collector/confmap/xconfmap => /tmp/wt-C12/confmap/xconfmap
	go.opentelemetry.io/collector/connector => /tmp/wt-C12/connector
	go.opentelemetry.io/collector/connector/connectortest => /tmp/wt-C12/connector/connectortest
	go.opentelemetry.io/collector/connector/forwardconnector => /tmp/wt-C12/connector/forwardconnector
	go.opentelemetry.io/collector/connector/xconnector => /tmp/wt-C12/connector/xconnector
	go.opentelemetry.io/collector/consumer => /tmp/wt-C12/consumer
	go.opentelemetry.io/collector/consumer/consumererror => /tmp/wt-C12/consumer/consumererror
	go.opentelemetry.io/collector/consumer/consumererror/xconsumererror => /tmp/wt-C12/consumer/consumererror/xconsumererror
	go.opentelemetry.io/collector/consumer/consumertest => /tmp/wt-C12/consumer/consumertest
	go.opentelemetry.io/collector/consumer/xconsumer => /tmp/wt-C12/consumer/xconsumer
	go.opentelemetry.io/collector/exporter => /tmp/wt-C12/exporter
	go.opentelemetry.io/collector/exporter/debugexporter => /tmp/wt-C12/exporter/debugexporter
	go.opentelemetry.io/collector/exporter/exporterhelper/xexporterhelper => /tmp/wt-C12/exporter/exporterhelper/xexporterhelper
	go.opentelemetry.io/collector/exporter/exportertest => /tmp/wt-C12/exporter/exportertest
	go.opentelemetry.io/collector/exporter/nopexporter => /tmp/wt-C12/exporter/nopexporter
	go.opentelemetry.io/collector/exporter/otlpexporter => /tmp/wt-C12/exporter/otlpexporter
	go.opentelemetry.io/collector/exporter/otlphttpexporter => /tmp/wt-C12/exporter/otlphttpexporter
	go.opentelemetry.io/collector/exporter/xexporter => /tmp/wt-C12/exporter/xexporter
	go.opentelemetry.io/collector/extension => /tmp/wt-C12/extension
	go.opentelemetry.io/collector/extension/extensionauth => /tmp/wt-C12/extension/extensionauth
	go.opentelemetry.io/collector/extension/extensionauth/extensionauthtest => /tmp/wt-C12/extension/extensionauth/extensionauthtest
	go.opentelemetry.io/collector/extension/extensioncapabilities => /tmp/wt-C12/extension/extensioncapabilities
	go.opentelemetry.io/collector/extension/extensionmiddleware => /tmp/wt-C12/extension/extensionmiddleware
	go.opentelemetry.io/collector/extension/extensionmiddleware/extensionmiddlewaretest => /tmp/wt-C12/extension/extensionmiddleware/extensionmiddlewaretest
	go.opentelemetry.io/collector/extension/extensiontest => /tmp/wt-C12/extension/extensiontest
	go.opentelemetry.io/collector/extension/memorylimiterextension => /tmp/wt-C12/extension/memorylimiterextension
	go.opentelemetry.io/collector/extension/xextension => /tmp/wt-C12/extension/xextension
	go.opentelemetry.io/collector/extension/zpagesextension => /tmp/wt-C12/extension/zpagesextension
	go.opentelemetry.io/collector/featuregate => /tmp/wt-C12/featuregate
	go.opentelemetry.io/collector/filter => /tmp/wt-C12/filter
	go.opentelemetry.io/collector/internal/e2e => /tmp/wt-C12/internal/e2e
	go.opentelemetry.io/collector/internal/fanoutconsumer => /tmp/wt-C12/internal/fanoutconsumer
	go.opentelemetry.io/collector/internal/memorylimiter => /tmp/wt-C12/internal/memorylimiter
	go.opentelemetry.io/collector/internal/sharedcomponent => /tmp/wt-C12/internal/sharedcomponent
	go.opentelemetry.io/collector/internal/telemetry => /tmp/wt-C12/internal/telemetry
	go.opentelemetry.io/collector/internal/tools => /tmp/wt-C12/internal/tools
	go.opentelemetry.io/collector/otelcol => /tmp/wt-C12/otelcol
	go.opentelemetry.io/collector/otelcol/otelcoltest => /tmp/wt-C12/otelcol/otelcoltest
	go.opentelemetry.io/collector/pdata => /tmp/wt-C12/pdata
	go.opentelemetry.io/collector/pdata/pprofile => /tmp/wt-C12/pdata/pprofile
	go.opentelemetry.io/collector/pipeline => /tmp/wt-C12/pipeline
	go.opentelemetry.io/collector/pipeline/xpipeline => /tmp/wt-C12/pipeline/xpipeline
	go.opentelemetry.io/collector/processor => /tmp/wt-C12/processor
	go.opentelemetry.io/collector/processor/batchprocessor => /tmp/wt-C12/processor/batchprocessor
	go.opentelemetry.io/collector/processor/memorylimiterprocessor => /tmp/wt-C12/processor/memorylimiterprocessor
	go.opentelemetry.io/collector/processor/processorhelper => /tmp/wt-C12/processor/processorhelper
	go.opentelemetry.io/collector/processor/processorhelper/xprocessorhelper => /tmp/wt-C12/processor/processorhelper/xprocessorhelper
	go.opentelemetry.io/collector/processor/processortest => /tmp/wt-C12/processor/processortest
	go.opentelemetry.io/collector/processor/xprocessor => /tmp/wt-C12/processor/xprocessor
	go.opentelemetry.io/collector/receiver => /tmp/wt-C12/receiver
	go.opentelemetry.io/collector/receiver/nopreceiver => /tmp/wt-C12/receiver/nopreceiver
	go.opentelemetry.io/collector/receiver/otlpreceiver => /tmp/wt-C12/receiver/otlpreceiver
	go.opentelemetry.io/collector/receiver/receiverhelper => /tmp/wt-C12/receiver/receiverhelper
	go.opentelemetry.io/collector/receiver/receivertest => /tmp/wt-C12/receiver/receivertest
	go.opentelemetry.io/collector/receiver/xreceiver => /tmp/wt-C12/receiver/xreceiver
	go.opentelemetry.io/collector/scraper => /tmp/wt-C12/scraper
	go.opentelemetry.io/collector/scraper/scraperhelper => /tmp/wt-C12/scraper/scraperhelper
	go.opentelemetry.io/collector/scraper/scrapertest => /tmp/wt-C12/scraper/scrapertest
	go.opentelemetry.io/collector/semconv => /tmp/wt-C12/semconv
	go.opentelemetry.io/collector/service => /tmp/wt-C12/service
	go.opentelemetry.io/collector/service/hostcapabilities => /tmp/wt-C12/service/hostcapabilities
)
