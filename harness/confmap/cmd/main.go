// Conformance driver for C12 (config resolution: merge + expansion).
//
//	cmd run <cases.ndjson> <result.json>
//	    Every line is one case produced from TLC output (specs/ConfResolve):
//	      {"kind":"table","name":T,"env":{NAME:text,...}}            provider table (environment of the real envprovider)
//	      {"kind":"exp","id":n,"tab":T,"def":bool,"s":string,"adm":[outcome,...],...}
//	      {"kind":"merge","id":n,"srcs":[json-object,...],"want":json-object}
//	    An "exp" case is resolved through the real confmap.NewResolver (yamlprovider source holding {"k": s},
//	    real envprovider for ${...}), then observed through ToStringMap and Unmarshal into string / any fields.
//	    The observation must be one of the admissible outcomes computed by the specification.
//	cmd probe <def:0|1> NAME=text ... -- string ...
//	    prints what the real resolver does (debugging aid).
package main

import (
	"bufio"
	"context"
	"encoding/json"
	"fmt"
	"os"
	"reflect"
	"sort"
	"strings"

	"go.opentelemetry.io/collector/confmap"
	"go.opentelemetry.io/collector/confmap/provider/envprovider"
	"go.opentelemetry.io/collector/confmap/provider/yamlprovider"
	yaml "sigs.k8s.io/yaml/goyaml.v3"
)

// outcome is an admissible result computed by the specification.
//
//	{"t":"err"}                      resolution reports an error
//	{"t":"str","s":text}             the string text
//	{"t":"yaml","s":text}            the typed (non-string) YAML value of text; a string field receives text
//	{"t":"map","k":key,"v":outcome}  a one-entry map
//	{"t":"list","e":[outcome]}       a list
type outcome struct {
	T string    `json:"t"`
	S string    `json:"s,omitempty"`
	K string    `json:"k,omitempty"`
	V *outcome  `json:"v,omitempty"`
	E []outcome `json:"e,omitempty"`
}

type tcase struct {
	Kind  string            `json:"kind"`
	ID    int               `json:"id"`
	Name  string            `json:"name,omitempty"`
	Env   map[string]string `json:"env,omitempty"`
	Tab   string            `json:"tab,omitempty"`
	Def   bool              `json:"def,omitempty"`
	S     string            `json:"s,omitempty"`
	Adm   []outcome         `json:"adm,omitempty"`
	Pred  []outcome         `json:"pred,omitempty"` // exact prediction of the implementation-shaped model: [Fixed, pinned]
	KD    bool              `json:"kd,omitempty"`   // known-defect predicate of the specification holds along the pinned model's run
	Kinds map[string]string `json:"kinds,omitempty"`
	Srcs  []json.RawMessage `json:"srcs,omitempty"`
	Want  json.RawMessage   `json:"want,omitempty"`
}

type observation struct {
	Err      bool   `json:"err"`
	ErrText  string `json:"errtext,omitempty"`
	ErrClass string `json:"errclass,omitempty"` // cycle | dollar | other   (informational only)
	Value    string `json:"value,omitempty"`    // canonical form of ToStringMap()["k"]
	AnyField string `json:"any,omitempty"`      // canonical form after Unmarshal into an `any` field
	StrOK    bool   `json:"strok"`              // Unmarshal into a string field succeeded
	StrField string `json:"str,omitempty"`
	IntOK    bool   `json:"intok"`
	IntField int    `json:"int,omitempty"`
}

type mismatch struct {
	Pinned bool        `json:"pinned"` // the real result is what the pinned (ReplaceAll) model predicts
	ID     int         `json:"id"`
	What   string      `json:"what"` // value | error | noerror | strfield | anyfield | intfield | merge | hang
	Got    observation `json:"got"`
	Want   []string    `json:"want"`
	Case   tcase       `json:"case"`
}

type result struct {
	Cases      int        `json:"cases"`
	Exp        int        `json:"exp"`
	Merge      int        `json:"merge"`
	MergeMulti int        `json:"merge_multi"`
	Errors     int        `json:"errors"`
	Typed      int        `json:"typed"`
	Changed    int        `json:"changed"`
	Mismatches []mismatch `json:"mismatches"`
	MatchFixed int        `json:"match_fixed"`
	MatchPin   int        `json:"match_pinned"`
	Matches    string     `json:"matches"` // which implementation-shaped model the tree follows on every root
	Drift      int        `json:"drift"`   // admissible, but predicted by neither model
	DriftEx    []any      `json:"driftex,omitempty"`
	Samples    []any      `json:"samples"`
}

// canon renders a decoded configuration value with its dynamic type, so that 123 and "123" differ.
func canon(v any) string {
	switch x := v.(type) {
	case nil:
		return "nil"
	case string:
		b, _ := json.Marshal(x)
		return "s" + string(b)
	case bool:
		return fmt.Sprintf("b%v", x)
	case int:
		return fmt.Sprintf("i%d", x)
	case int64:
		return fmt.Sprintf("i%d", x)
	case uint64:
		return fmt.Sprintf("i%d", x)
	case float64:
		return fmt.Sprintf("f%v", x)
	case []any:
		parts := make([]string, len(x))
		for i, e := range x {
			parts[i] = canon(e)
		}
		return "[" + strings.Join(parts, ",") + "]"
	case map[string]any:
		keys := make([]string, 0, len(x))
		for k := range x {
			keys = append(keys, k)
		}
		sort.Strings(keys)
		parts := make([]string, len(keys))
		for i, k := range keys {
			kb, _ := json.Marshal(k)
			parts[i] = string(kb) + ":" + canon(x[k])
		}
		return "{" + strings.Join(parts, ",") + "}"
	case map[any]any:
		m := map[string]any{}
		for k, e := range x {
			m[fmt.Sprint(k)] = e
		}
		return canon(m)
	}
	return fmt.Sprintf("?%T(%v)", v, v)
}

// canonJSON renders a JSON document (merge cases) in the same canonical form; JSON numbers are ints here.
func fromJSON(raw []byte) (any, error) {
	dec := json.NewDecoder(strings.NewReader(string(raw)))
	dec.UseNumber()
	var v any
	if err := dec.Decode(&v); err != nil {
		return nil, err
	}
	return conv(v), nil
}

func conv(v any) any {
	switch x := v.(type) {
	case json.Number:
		if i, err := x.Int64(); err == nil {
			return int(i)
		}
		f, _ := x.Float64()
		return f
	case []any:
		for i := range x {
			x[i] = conv(x[i])
		}
		return x
	case map[string]any:
		for k := range x {
			x[k] = conv(x[k])
		}
		return x
	}
	return v
}

// wantValue: canonical form of the value ToStringMap must show for an admissible (non-error) outcome.
func wantValue(o outcome) (string, error) {
	switch o.T {
	case "str":
		return canon(o.S), nil
	case "yaml":
		var v any
		if err := yaml.Unmarshal([]byte(o.S), &v); err != nil {
			return "", fmt.Errorf("table text %q is not YAML: %w", o.S, err)
		}
		if _, isStr := v.(string); isStr {
			return "", fmt.Errorf("table text %q declared typed but parses as a string", o.S)
		}
		return canon(v), nil
	case "map":
		s, err := wantValue(*o.V)
		if err != nil {
			return "", err
		}
		kb, _ := json.Marshal(o.K)
		return "{" + string(kb) + ":" + s + "}", nil
	case "list":
		parts := make([]string, len(o.E))
		for i, e := range o.E {
			s, err := wantValue(e)
			if err != nil {
				return "", err
			}
			parts[i] = s
		}
		return "[" + strings.Join(parts, ",") + "]", nil
	}
	return "", fmt.Errorf("unknown outcome kind %q", o.T)
}

func classify(err error) string {
	t := err.Error()
	switch {
	case strings.Contains(t, "too many recursive expansions"):
		return "cycle"
	case strings.Contains(t, "unsupported characters ('$')"):
		return "dollar"
	}
	return "other"
}

var curEnv = map[string]string{}

func setEnv(env map[string]string) {
	for k := range curEnv {
		os.Unsetenv(k)
	}
	curEnv = map[string]string{}
	for k, v := range env {
		os.Setenv(k, v)
		curEnv[k] = v
	}
}

// tstProvider: a provider that returns a value for ANY name handed to it (it does not validate names itself, as the stock
// env provider happens to): what reaches it is decided by the resolver alone.
type tstProvider struct{}

func (tstProvider) Retrieve(_ context.Context, uri string, _ confmap.WatcherFunc) (*confmap.Retrieved, error) {
	return confmap.NewRetrieved("val(" + strings.TrimPrefix(uri, "tst:") + ")")
}
func (tstProvider) Scheme() string                 { return "tst" }
func (tstProvider) Shutdown(context.Context) error { return nil }

// defaultScheme: "env" except for the cases of table TD (default scheme served by tstProvider)
var defaultScheme = "env"

func newResolver(uris []string, def bool) (*confmap.Resolver, error) {
	set := confmap.ResolverSettings{
		URIs: uris,
		ProviderFactories: []confmap.ProviderFactory{yamlprovider.NewFactory(), envprovider.NewFactory(),
			confmap.NewProviderFactory(func(confmap.ProviderSettings) confmap.Provider { return tstProvider{} })},
	}
	if def {
		set.DefaultScheme = defaultScheme
	}
	return confmap.NewResolver(set)
}

type strT struct {
	K string `mapstructure:"k"`
}
type anyT struct {
	K any `mapstructure:"k"`
}
type intT struct {
	K int `mapstructure:"k"`
}

func observe(s string, def bool) (observation, error) {
	var o observation
	src, _ := json.Marshal(map[string]any{"k": s})
	r, err := newResolver([]string{"yaml:" + string(src)}, def)
	if err != nil {
		return o, err
	}
	defer r.Shutdown(context.Background())
	conf, err := r.Resolve(context.Background())
	if err != nil {
		o.Err, o.ErrText, o.ErrClass = true, err.Error(), classify(err)
		return o, nil
	}
	m := conf.ToStringMap()
	o.Value = canon(m["k"])
	var a anyT
	if err := safeUnmarshal(conf, &a); err == nil {
		o.AnyField = canon(a.K)
	} else {
		o.AnyField = "error:" + err.Error()
	}
	var st strT
	if err := safeUnmarshal(conf, &st); err == nil {
		o.StrOK, o.StrField = true, st.K
	}
	var it intT
	if err := safeUnmarshal(conf, &it); err == nil {
		o.IntOK, o.IntField = true, it.K
	}
	return o, nil
}

// safeUnmarshal turns a panic inside Conf.Unmarshal into an error whose text starts with "panic:".
func safeUnmarshal(conf *confmap.Conf, dst any) (err error) {
	defer func() {
		if r := recover(); r != nil {
			err = fmt.Errorf("panic: %v", r)
		}
	}()
	return conf.Unmarshal(dst)
}

func runCases(in, out string) error {
	f, err := os.Open(in)
	if err != nil {
		return err
	}
	defer f.Close()
	sc := bufio.NewScanner(f)
	sc.Buffer(make([]byte, 1<<20), 1<<26)
	tables := map[string]map[string]string{}
	cur := ""
	res := result{Mismatches: []mismatch{}, Samples: []any{}}
	line := 0
	for sc.Scan() {
		line++
		var c tcase
		if err := json.Unmarshal(sc.Bytes(), &c); err != nil {
			return fmt.Errorf("line %d: %w", line, err)
		}
		switch c.Kind {
		case "table":
			if err := checkTable(c); err != nil {
				return fmt.Errorf("line %d: %w", line, err)
			}
			tables[c.Name] = c.Env
		case "exp":
			env, ok := tables[c.Tab]
			if !ok {
				return fmt.Errorf("line %d: unknown table %q", line, c.Tab)
			}
			if cur != c.Tab {
				setEnv(env)
				cur = c.Tab
			}
			defaultScheme = "env"
			if c.Tab == "TD" {
				defaultScheme = "tst"
			}
			res.Cases++
			res.Exp++
			got, err := observe(c.S, c.Def)
			if err != nil {
				return fmt.Errorf("line %d: %w", line, err)
			}
			if err := compareExp(c, got, &res); err != nil {
				return fmt.Errorf("line %d: %w", line, err)
			}
			// "EVERY ${...} reference is replaced": the same scalar somewhere else in the configuration tree -- an item
			// of a list next to items that settle sooner or later, below nested maps and lists -- must resolve to one of
			// its admissible outcomes too, and its neighbours to theirs (placement chosen from the case id)
			if err := placed(c, &res); err != nil {
				return fmt.Errorf("line %d: %w", line, err)
			}
		case "merge":
			res.Cases++
			res.Merge++
			if err := runMerge(c, &res); err != nil {
				return fmt.Errorf("line %d: %w", line, err)
			}
		default:
			return fmt.Errorf("line %d: unknown kind %q", line, c.Kind)
		}
	}
	if err := sc.Err(); err != nil {
		return err
	}
	switch {
	case res.MatchFixed == res.Exp && res.MatchPin == res.Exp:
		res.Matches = "fixed+pinned"
	case res.MatchFixed == res.Exp:
		res.Matches = "fixed"
	case res.MatchPin == res.Exp:
		res.Matches = "pinned"
	default:
		res.Matches = "neither"
	}
	b, _ := json.Marshal(res)
	return os.WriteFile(out, b, 0o644)
}

// checkTable: the kind the specification declares for every provider text is the kind the YAML parser sees.
func checkTable(c tcase) error {
	for n, text := range c.Env {
		var v any
		if err := yaml.Unmarshal([]byte(text), &v); err != nil {
			return fmt.Errorf("table %s: %s=%q is not YAML: %w", c.Name, n, text, err)
		}
		k := "scalar"
		switch v.(type) {
		case string:
			k = "str"
		case map[string]any:
			k = "map"
		case []any:
			k = "list"
		}
		if want, ok := c.Kinds[n]; ok && want != k {
			return fmt.Errorf("table %s: %s=%q is declared %s but parses as %s", c.Name, n, text, want, k)
		}
	}
	return nil
}

// placed resolves the scalar of an "exp" case at another position of the document and compares value / error with the
// admissible outcomes of the specification (the typed-field observations are made for the top-level placement only).
// The neighbours are a literal (settles at once) and a single direct reference to a name every table... does not
// need: the literal text "lit" and the escaped text "$$lit" (one round of un-escaping), both independent of the table.
func placed(c tcase, res *result) error {
	var doc map[string]any
	var path []any
	switch c.ID % 4 {
	case 0:
		doc, path = map[string]any{"w": []any{c.S, "lit"}}, []any{"w", 0}
	case 1:
		doc, path = map[string]any{"w": []any{"lit", c.S, "$$lit"}}, []any{"w", 1}
	case 2:
		doc, path = map[string]any{"w": map[string]any{"a": []any{map[string]any{"b": c.S}, "lit"}, "z": "lit"}}, []any{"w", "a", 0, "b"}
	default:
		doc, path = map[string]any{"w": []any{[]any{"$$lit", c.S}, "lit"}}, []any{"w", 0, 1}
	}
	src, _ := json.Marshal(doc)
	r, err := newResolver([]string{"yaml:" + string(src)}, c.Def)
	if err != nil {
		return err
	}
	defer r.Shutdown(context.Background())
	// a history of resolutions on ONE Resolver (ConfReload.tla): the document is first resolved while every provider entry
	// returns a plain literal, then the provider values change to the table of the case -- as before a configuration
	// reload.  The second resolution must yield what the providers return NOW (seeded change C12-5 memoised them).
	if len(curEnv) > 0 {
		real := map[string]string{}
		warm := map[string]string{}
		for k, v := range curEnv {
			real[k] = v
			warm[k] = "warm-" + strings.ToLower(k)
		}
		setEnv(warm)
		_, _ = r.Resolve(context.Background())
		setEnv(real)
	}
	var got observation
	conf, rerr := r.Resolve(context.Background())
	var whole any
	if rerr != nil {
		got.Err, got.ErrText, got.ErrClass = true, rerr.Error(), classify(rerr)
	} else {
		whole = conf.ToStringMap()
		var v any = whole
		for _, k := range path {
			switch kk := k.(type) {
			case string:
				m, _ := v.(map[string]any)
				v = m[kk]
			case int:
				l, _ := v.([]any)
				if kk < len(l) {
					v = l[kk]
				} else {
					v = nil
				}
			}
		}
		got.Value = canon(v)
	}
	var wants []string
	ok := false
	for _, o := range c.Adm {
		if matches(o, got) {
			ok = true
		}
		if o.T == "err" {
			wants = append(wants, "error")
		} else if w, err := wantValue(o); err == nil {
			wants = append(wants, w)
		}
	}
	// the neighbours: untouched literal, un-escaped "$lit"
	if rerr == nil {
		flat := canon(whole)
		if !strings.Contains(flat, canon("lit")) || (c.ID%2 == 1 && !strings.Contains(flat, canon("$lit"))) {
			ok = false
			got.AnyField = "neighbours: " + flat
		}
	}
	if !ok {
		got.StrField = fmt.Sprintf("placement %d: document %s", c.ID%4, src)
		if len(res.Mismatches) < 400 {
			res.Mismatches = append(res.Mismatches, mismatch{ID: c.ID, What: "placed", Got: got, Want: wants, Case: c})
		} else {
			res.Mismatches = append(res.Mismatches, mismatch{ID: c.ID, What: "placed"})
		}
	}
	return nil
}

func matches(o outcome, got observation) bool {
	if o.T == "err" {
		return got.Err
	}
	if got.Err {
		return false
	}
	w, err := wantValue(o)
	return err == nil && w == got.Value
}

func compareExp(c tcase, got observation, res *result) error {
	var wants []string
	errAdmitted := false
	for _, o := range c.Adm {
		if o.T == "err" {
			errAdmitted = true
			wants = append(wants, "error")
			continue
		}
		w, err := wantValue(o)
		if err != nil {
			return err
		}
		wants = append(wants, w)
	}
	if len(wants) == 0 {
		return fmt.Errorf("case %d has no admissible outcome", c.ID)
	}
	add := func(what string) {
		if len(res.Mismatches) < 400 {
			res.Mismatches = append(res.Mismatches, mismatch{ID: c.ID, What: what, Got: got, Want: wants, Case: c,
				Pinned: len(c.Pred) == 2 && matches(c.Pred[1], got)})
		} else {
			res.Mismatches = append(res.Mismatches, mismatch{ID: c.ID, What: what})
		}
	}
	mf, mp := len(c.Pred) == 2 && matches(c.Pred[0], got), len(c.Pred) == 2 && matches(c.Pred[1], got)
	if mf {
		res.MatchFixed++
	}
	if mp {
		res.MatchPin++
	}
	drift := func() {
		if len(c.Pred) == 2 && !mf && !mp {
			res.Drift++
			if len(res.DriftEx) < 5 {
				res.DriftEx = append(res.DriftEx, map[string]any{"s": c.S, "def": c.Def, "tab": c.Tab, "got": got, "pred": c.Pred})
			}
		}
	}
	if res.Exp%997 == 1 && len(res.Samples) < 6 {
		res.Samples = append(res.Samples, map[string]any{"kind": "replayed root", "s": c.S, "default_scheme": c.Def, "table": c.Tab,
			"admissible": wants, "real": got})
	}
	if got.Err {
		res.Errors++
		if !errAdmitted {
			add("error")
		} else {
			drift()
		}
		return nil
	}
	if got.Value != canon(c.S) {
		res.Changed++
	}
	var hit *outcome
	for i, o := range c.Adm {
		if o.T != "err" && wants[i] == got.Value {
			hit = &c.Adm[i]
			break
		}
	}
	if hit == nil {
		if len(wants) == 1 && errAdmitted {
			add("noerror")
		} else {
			add("value")
		}
		return nil
	}
	drift()
	// the `any` field sees the same typed value
	if got.AnyField != got.Value {
		add("anyfield")
	}
	switch hit.T {
	case "str":
		if !got.StrOK || got.StrField != hit.S {
			add("strfield")
		}
	case "yaml":
		res.Typed++
		// "its original text when ... assigned to a string field"
		if !got.StrOK || got.StrField != hit.S {
			add("strfield")
		}
		var v any
		_ = yaml.Unmarshal([]byte(hit.S), &v)
		if iv, ok := v.(int); ok && (!got.IntOK || got.IntField != iv) {
			add("intfield")
		}
	}
	return nil
}

func runMerge(c tcase, res *result) error {
	uris := make([]string, len(c.Srcs))
	for i, s := range c.Srcs {
		uris[i] = "yaml:" + string(s)
	}
	want, err := fromJSON(c.Want)
	if err != nil {
		return err
	}
	r, err := newResolver(uris, false)
	if err != nil {
		return err
	}
	defer r.Shutdown(context.Background())
	var got observation
	conf, err := r.Resolve(context.Background())
	if err != nil {
		got.Err, got.ErrText = true, err.Error()
	} else {
		got.Value = canon(normEmpty(conf.ToStringMap()))
	}
	w := canon(normEmpty(want))
	if len(c.Srcs) >= 2 {
		res.MergeMulti++
	}
	if res.Merge%9973 == 1 && len(res.Samples) < 8 {
		res.Samples = append(res.Samples, map[string]any{"kind": "replayed source list", "srcs": c.Srcs, "specified": w, "real": got.Value})
	}
	if got.Err || got.Value != w {
		res.Mismatches = append(res.Mismatches, mismatch{ID: c.ID, What: "merge", Got: got, Want: []string{w}, Case: c})
	}
	return nil
}

// normEmpty: a nil []any and an empty []any are the same list.
func normEmpty(v any) any {
	switch x := v.(type) {
	case []any:
		if len(x) == 0 {
			return []any{}
		}
		out := make([]any, len(x))
		for i := range x {
			out[i] = normEmpty(x[i])
		}
		return out
	case map[string]any:
		out := map[string]any{}
		for k, e := range x {
			out[k] = normEmpty(e)
		}
		return out
	}
	if v != nil && reflect.TypeOf(v).Kind() == reflect.Slice && reflect.ValueOf(v).Len() == 0 {
		return []any{}
	}
	return v
}

func probe(args []string) error {
	def := args[0] == "1"
	env := map[string]string{}
	i := 1
	for ; i < len(args) && args[i] != "--"; i++ {
		k, v, _ := strings.Cut(args[i], "=")
		env[k] = v
	}
	setEnv(env)
	for _, s := range args[i+1:] {
		o, err := observe(s, def)
		if err != nil {
			return err
		}
		b, _ := json.Marshal(o)
		fmt.Printf("%-40q %s\n", s, b)
	}
	return nil
}

func main() {
	os.Clearenv() // names the tables do not set must be unset
	var err error
	switch {
	case len(os.Args) == 4 && os.Args[1] == "run":
		err = runCases(os.Args[2], os.Args[3])
	case len(os.Args) > 3 && os.Args[1] == "probe":
		err = probe(os.Args[2:])
	default:
		err = fmt.Errorf("usage: run <cases.ndjson> <result.json> | probe <0|1> NAME=text... -- string...")
	}
	if err != nil {
		fmt.Fprintln(os.Stderr, "c12 driver:", err)
		os.Exit(3)
	}
}
